#!/venv/bin/python
"""Entry point of every registered check.

    /venv/bin/python /verif/run_check.py <ID> --tier quick|thorough
    /venv/bin/python /verif/run_check.py <ID> --replay FILE

exit 0  property held on everything explored (KNOWN-FINDING lines allowed)
exit 1  + "VIOLATION property=<id> replay=<path>"
exit 2  harness failure (never a property result)
"""
from __future__ import annotations

import os
import sys

sys.path.insert(0, os.path.dirname(os.path.abspath(__file__)))

from simkit import boot  # noqa: E402

boot.reexec_if_needed(os.path.abspath(__file__), sys.argv[1:])

import argparse  # noqa: E402
import json  # noqa: E402
import traceback  # noqa: E402

ENGINES = {
    "C06": ("engines.faultworld", "fault_enumeration"),
    "C05": ("engines.importworld", "exploration"),
    "C08": ("engines.importworld", "exploration"),
    "C10": ("engines.importworld", "exploration"),
    "C11": ("engines.histworld", "exploration"),
    "C12": ("engines.threadworld", "exploration"),
    "C15": ("engines.cliworld", "exploration"),
}


def main() -> int:
    ap = argparse.ArgumentParser()
    ap.add_argument("prop")
    ap.add_argument("--tier", default=os.environ.get("VERIF_TIER", "quick"), choices=["quick", "thorough"])
    ap.add_argument("--replay", default=None)
    ap.add_argument("--only", default=None, help="comma separated run indices (debugging)")
    ap.add_argument("--no-evidence", action="store_true", help="do not rewrite the evidence file (self-tests)")
    args = ap.parse_args()
    from simkit import seeds, report
    import importlib

    master = seeds.master_seed()
    print(f"VERIF_SEED={master} property={args.prop} tier={args.tier} repo={boot.repo_dir()}")
    info = boot.eager_import()
    modname, level = ENGINES[args.prop]
    eng = importlib.import_module(modname)
    if args.replay:
        with open(args.replay, encoding="utf-8") as f:
            payload = json.load(f)
        res = eng.replay(payload) if not hasattr(eng, "replay_prop") else eng.replay_prop(args.prop, payload)
        if res.get("sig") is not None:
            print(f"VIOLATION property={args.prop} replay={args.replay}")
            print(f"  reproduced: {res['sig']}")
            return 1
        print(f"{args.prop}: replay did not reproduce a violation")
        return 0
    rep = report.Report(args.prop, args.tier, master, level)
    only = [int(x) for x in args.only.split(",")] if args.only else None
    if hasattr(eng, "check_prop"):
        eng.check_prop(args.prop, rep, args.tier, master, only)
    else:
        eng.check(rep, args.tier, master, only)
    # regression corpus: minimised replay files of violations met earlier (genuine defects since repaired): they carry
    # their own inputs, so they keep guarding whatever the generators produce later
    corpus_dir = os.path.join(os.path.dirname(os.path.abspath(__file__)), "corpus", args.prop)
    n_corpus = 0
    if os.path.isdir(corpus_dir) and only is None:
        for fn in sorted(os.listdir(corpus_dir)):
            if not fn.endswith(".json"):
                continue
            with open(os.path.join(corpus_dir, fn), encoding="utf-8") as f:
                payload = json.load(f)
            try:
                res = eng.replay(payload) if not hasattr(eng, "replay_prop") else eng.replay_prop(args.prop, payload)
            except Exception as e:  # a corpus entry that cannot run is a harness problem, never silence
                rep.harness_error(f"corpus {fn}: {type(e).__name__}: {e}")
                continue
            n_corpus += 1
            if res.get("sig") is not None and res["sig"] == payload.get("signature"):
                rep.violation(res["sig"], {k: v for k, v in payload.items() if k not in ("signature", "property", "what", "master_seed")},
                              f"regression corpus {fn}: {payload.get('what', '')}")
    rep.coverage["regression_corpus_replayed"] = n_corpus
    rep.coverage["eager_import"] = info
    if args.no_evidence:
        report.EVIDENCE_DIR = os.path.join("/tmp", "simkit-noevidence")
    return rep.finish(rep.coverage, rep.assumptions)


if __name__ == "__main__":
    try:
        rc = main()
    except SystemExit:
        raise
    except BaseException:
        traceback.print_exc()
        print("HARNESS-ERROR: check driver crashed")
        rc = 2
    sys.stdout.flush()
    os._exit(rc)
