"""Macro libraries with generated acyclic call graphs, and the worlds (file layouts) they live in.

Every op of a macro body carries a unique opcode tag `t_<macro>_<variant>_<n>`, so any op in a compiled
routine names the macro - and therefore the file - it came from.
"""
from __future__ import annotations

import posixpath
import random

from simkit.vfs import Vfs


class Macro:
    def __init__(self, name: str, params: list[str], callees: list[str]):
        self.name = name
        self.params = params
        self.callees = callees  # names, in call order (a callee may appear twice)
        self.early_return = False
        self.label = False
        self.posmark = False
        self.call_first = False  # the body begins with its first nested call (no op of its own before it)
        self.tail = None  # None | "return" | "end" | "hold": the body's last statement
        self.label_only = False  # the body is a label and nothing else (an expansion that emits no op)
        self.use = None  # None | "switch" | "while" | "while_return" | "for" | "value" | "msgswitch": the first parameter in a header
        self.wrap_plan: list = []  # per call: None | "if" | "forever" | "while" | "case" - the construct the call sits in
        self.arg_plan: list[list[str]] = []  # per call: argument texts


def use_lines(use, t: str, p0: str, ret: str, ind: str) -> list[str]:
    """Statements that use the first parameter in the header of a construct. `ret` is the text of `return` here
    (`return;` in a macro body, a jump to the expansion's end label in the inlined program)."""
    if use == "switch":
        return [f"{ind}switch ({p0}) {{", f"{ind}    case 1:", f"{ind}        {t}_s1();", f"{ind}        break;", f"{ind}    default:", f"{ind}        {t}_s2();", f"{ind}}}"]
    if use == "while":
        return [f"{ind}while ({p0} < 2) {{", f"{ind}    {t}_w();", f"{ind}    break_loop;", f"{ind}}}"]
    if use == "while_return":
        return [f"{ind}while ({p0} < 2) {{", f"{ind}    {t}_w();", f"{ind}    {ret}", f"{ind}}}"]
    if use == "for":
        return [f"{ind}for ({t}_f0({p0}); {p0} < 3; {t}_f2();) {{", f"{ind}    {t}_f1();", f"{ind}}}"]
    if use == "value":
        return [f"{ind}if ($CMP == {p0}) {{", f"{ind}    {t}_v();", f"{ind}}}", f"{ind}$SET = {p0};"]
    if use == "msgswitch":
        return [f"{ind}message_SwitchTalk ({p0}) {{", f"{ind}    case 1:", f"{ind}        'one'", f"{ind}    default:", f"{ind}        'other'", f"{ind}}}"]
    return []


def wrap_lines(wrap, t: str, i: int, inner: list[str], ind: str) -> list[str]:
    """The construct a call sits in; `inner` is the call (or its expansion), already indented by ind + 4 / ind + 8."""
    if wrap == "if":
        return [f"{ind}if ($C{i} == 1) {{"] + inner + [f"{ind}}}"]
    if wrap == "forever":
        return [f"{ind}forever {{"] + inner + [f"{ind}    break_loop;", f"{ind}}}"]
    if wrap == "while":
        return [f"{ind}while ($C{i} < 2) {{"] + inner + [f"{ind}}}"]
    if wrap == "case":
        return [f"{ind}switch ($C{i}) {{", f"{ind}    case 1:"] + inner + [f"{ind}        break;", f"{ind}    default:", f"{ind}        {t}_d{i}();", f"{ind}}}"]
    return inner


def wrap_indent(wrap) -> str:
    return {"if": "    ", "forever": "    ", "while": "    ", "case": "        "}.get(wrap, "")


# what the main routine ends with before `end;`: nothing, or loops whose condition is written as an operation (the
# operation is only the template of the branch op; its number is taken while the routine is collected)
MAIN_TAILS = [
    [],
    ["    while (BranchBit($TAIL, 3)) {", "        main_tail_w();", "    }"],
    ["    for (main_tail_i(); BranchBit($TAIL, 1); main_tail_n();) {", "        main_tail_f();", "    }"],
    ["    if (BranchBit($TAIL, 2)) {", "        main_tail_t();", "    }", "    switch (ProcessSpecial(1, 2, 3)) {", "        case 1:", "            main_tail_c();", "            break;", "    }"],
]


class Lib:
    def __init__(self):
        self.macros: dict[str, Macro] = {}
        self.order: list[str] = []  # callee-first (topological) order
        self.main_calls: list[tuple[str, list[str]]] = []
        self.shape = ""

    def body(self, m: Macro, variant: str = "a") -> str:
        """Text of macro m; `variant` changes only the opcode tags (used for shadowing worlds / edits)."""
        t = f"t_{m.name}_{variant}"
        lines = [f"macro {m.name}({', '.join(m.params)}) {{"]
        if m.label_only:
            return "\n".join(lines + ["    @again;", "}"])
        if not (m.call_first and m.callees):
            lines.append(f"    {t}_0({', '.join(m.params)});")
        if m.posmark and not (m.call_first and m.callees):
            lines.append(f"    {t}_p(Position<'pm_{m.name}', 3, 4.5>);")
        if m.early_return and m.params and not (m.call_first and m.callees):
            lines.append(f"    if ({m.params[0]} == 1) {{")
            lines.append(f"        {t}_r();")
            lines.append("        return;")
            lines.append("    }")
        if m.use and m.params and not (m.call_first and m.callees):
            lines += use_lines(m.use, t, m.params[0], "return;", "    ")
        if m.label and not (m.call_first and m.callees):
            # the same label name in every macro: labels are private to a macro (and to each of its expansions)
            lines.append(f"    @again;")
            lines.append(f"    {t}_l();")
            lines.append(f"    if ($LOOP_{m.name} < 3) {{ jump @again; }}")
        for i, (callee, args) in enumerate(zip(m.callees, m.arg_plan)):
            wrap = m.wrap_plan[i] if i < len(m.wrap_plan) else None
            lines += wrap_lines(wrap, t, i, [f"    {wrap_indent(wrap)}~{callee}({', '.join(args)});"], "    ")
            lines.append(f"    {t}_{i + 1}();")
        if m.tail:
            lines.append(f"    {m.tail};")
        lines.append("}")
        return "\n".join(lines)

    def main_body(self) -> str:
        lines = ["def 0 {"] + ([] if getattr(self, "main_starts_with_call", False) else ["    main_0();"])
        for i, (name, args) in enumerate(self.main_calls):
            wrap = self.main_wrap[i] if i < len(getattr(self, "main_wrap", [])) else None
            if wrap == "else":
                lines += [f"    if ($W{i} == 1) {{", f"        main_then_{i}();", "    } else {", f"        ~{name}({', '.join(args)});", "    }"]
            elif wrap == "ifnot":
                lines += [f"    if not ($W{i} == 1) {{", f"        ~{name}({', '.join(args)});", "    }"]
            elif wrap == "case":
                lines += [f"    switch ($W{i}) {{", "        case 1:", f"            ~{name}({', '.join(args)});", "            break;", "        default:",
                          f"            main_default_{i}();", "    }"]
            elif wrap in ("forever", "while"):
                lines += wrap_lines(wrap, "main", i, [f"        ~{name}({', '.join(args)});"], "    ")
            else:
                lines.append(f"    ~{name}({', '.join(args)});")
            lines.append(f"    main_{i + 1}();")
        lines += MAIN_TAILS[getattr(self, "main_tail", 0)]
        lines += ["    end;", "}"]
        return "\n".join(lines)

    def depth(self, name: str, memo=None) -> int:
        memo = {} if memo is None else memo
        if name in memo:
            return memo[name]
        m = self.macros[name]
        d = 0 if not m.callees else 1 + max(self.depth(c, memo) for c in m.callees)
        memo[name] = d
        return d

    def captures(self) -> bool:
        """Some macro has a parameter P, and a macro nested below it (a callee of a callee ...) passes the literal text P
        - its own variable of that name, not a parameter - on to one of its callees."""
        for m in self.macros.values():
            below = self.reachable(m.callees)
            for p in m.params:
                for d in below:
                    dm = self.macros[d]
                    if p in dm.params:
                        continue
                    if any(p in args for args in dm.arg_plan):
                        return True
        return False

    def reachable(self, roots=None) -> set[str]:
        roots = [n for n, _ in self.main_calls] if roots is None else roots
        seen: set[str] = set()
        st = list(roots)
        while st:
            n = st.pop()
            if n in seen:
                continue
            seen.add(n)
            st += self.macros[n].callees
        return seen


def _args(rng: random.Random, n: int, own_params: list[str], intlike_first: bool = False, own_intlike: bool = False) -> list[str]:
    out = []
    for i in range(n):
        c = rng.random()
        if i == 0 and intlike_first:
            # the first parameter of this callee is used in a condition: integer-like arguments only - a number, a
            # constant, a variable, or the caller's own first parameter if that one is itself restricted this way
            if own_intlike and own_params and c < 0.4:
                out.append(own_params[0])
                continue
            c = 0.4 + 0.4 * rng.random()
        if own_params and c < 0.4:
            out.append(rng.choice(own_params))
        elif c < 0.6:
            out.append(str(rng.randint(0, 9)))
        elif c < 0.8:
            # constants, a game variable, and constants spelled like a parameter name without its sigil
            pick = rng.choice(["CONST_A", "$VAR_B", "ACTOR_X", "CONST_A", "$VAR_B", "ACTOR_X", "p0", "a", "ab", "v"])
            if i == 0 and intlike_first and pick in own_params:
                pick = "CONST_A"  # (a literal spelled like one of the caller's own parameters would hand on whatever that one holds)
            out.append(pick)
        elif c < 0.9:
            out.append(rng.choice(["'s'", '"t t"', "1.5"]))
        else:
            # "all argument kinds": negative and fixed-point numbers, position marks, language strings, strings that
            # look like variables
            out.append(rng.choice(["-3", "-0.5", "Position<'mk', 1, 2.5>", "{english='e', german='g'}", "'$x %y'", "12.125"]))
    return out


def seeds_random_flag(rng: random.Random) -> bool:
    return rng.random() < 0.08


SHAPES = ["chain", "diamond", "two_depths", "shared_callee", "random", "random", "wide", "design_case"]


def gen_lib(rng: random.Random, shape: str | None = None, n: int | None = None) -> Lib:
    lib = Lib()
    shape = shape or rng.choice(SHAPES)
    lib.shape = shape
    # a few libraries name a parameter like the game variable that other macros use literally (known finding of C05:
    # the parameter of an outer macro captures that variable in the bodies of nested callees); kept out of all other
    # libraries so that they stay clean of it
    capturing = seeds_random_flag(rng)
    lib.capturing = capturing
    names: list[str]
    edges: dict[str, list[str]] = {}
    if shape == "design_case":
        # top -> {mid, leaf}, mid -> deep, deep -> leaf  (a caller of two callees of different depth)
        names = ["top", "mid", "leaf", "deep"]
        edges = {"top": ["mid", "leaf"], "mid": ["deep"], "deep": ["leaf"], "leaf": []}
    elif shape == "chain":
        k = n or rng.randint(3, 6)
        names = [f"c{i}" for i in range(k)]
        edges = {names[i]: ([names[i + 1]] if i + 1 < k else []) for i in range(k)}
    elif shape == "diamond":
        names = ["d_top", "d_l", "d_r", "d_bot"]
        edges = {"d_top": ["d_l", "d_r"], "d_l": ["d_bot"], "d_r": ["d_bot"], "d_bot": []}
        if rng.random() < 0.5:
            names.append("d_deep")
            edges["d_bot"] = ["d_deep"]
            edges["d_deep"] = []
    elif shape == "two_depths":
        names = ["a", "b", "c", "d", "e"]
        edges = {"a": ["b", "e"], "b": ["c"], "c": ["d"], "d": ["e"], "e": []}
        if rng.random() < 0.5:
            edges["a"] = ["e", "b"]
    elif shape == "shared_callee":
        names = ["s1", "s2", "s3", "util"]
        edges = {"s1": ["util"], "s2": ["util", "s3"], "s3": ["util"], "util": []}
    elif shape == "wide":
        k = n or rng.randint(4, 7)
        names = [f"w{i}" for i in range(k)]
        edges = {nm: [] for nm in names}
        edges[names[0]] = names[1:]
    else:
        k = n or rng.randint(3, 7)
        names = [f"r{i}" for i in range(k)]
        for i, nm in enumerate(names):
            later = names[i + 1:]
            cnt = rng.choice([0, 1, 1, 2, 3])
            edges[nm] = rng.sample(later, min(cnt, len(later))) if later else []
            if edges[nm] and rng.random() < 0.2:
                edges[nm].append(rng.choice(edges[nm]))  # the same callee called twice
    for nm in names:
        # parameter names: plain, one a prefix of the other (either order), or named like a variable that callers
        # pass literally
        scheme = rng.choice([["$p0", "$p1"], ["$p0", "$p1"], ["$a", "$ab"], ["$ab", "$a"]])
        if capturing and rng.random() < 0.5:
            scheme = ["$VAR_B", "$v"]
        m = Macro(nm, scheme[: rng.randint(0, 2)], list(edges[nm]))
        m.early_return = rng.random() < 0.3
        m.label = rng.random() < 0.15
        m.posmark = rng.random() < 0.2
        m.call_first = rng.random() < 0.3
        m.tail = rng.choice([None, None, None, "return", "end", "hold"])
        m.use = rng.choice([None, None, None, "switch", "while", "while_return", "for", "value", "msgswitch"]) if m.params else None
        m.wrap_plan = [None if (j == 0 and m.call_first) else rng.choice([None, None, None, "if", "forever", "while", "case"]) for j in range(len(edges[nm]))]
        m.label_only = (not edges[nm]) and rng.random() < 0.12
        lib.macros[nm] = m
    for m in lib.macros.values():
        m.arg_plan = [_args(rng, len(lib.macros[c].params) + (1 if rng.random() < 0.1 else 0), m.params,
                            lib.macros[c].early_return or bool(lib.macros[c].use), m.early_return or bool(m.use))
                      for c in m.callees]
    # callee-first order
    memo: dict = {}
    lib.order = sorted(names, key=lambda nm: (lib.depth(nm, memo), nm))
    roots = [nm for nm in names if not any(nm in e for e in edges.values())]
    calls = list(roots)
    calls += rng.sample(names, rng.randint(0, min(2, len(names))))
    rng.shuffle(calls)
    if rng.random() < 0.1:
        calls += [rng.choice(names)] * rng.choice([10, 12])  # more than nine expansions of one macro in one routine
    lib.main_calls = [(nm, _args(rng, len(lib.macros[nm].params), [], lib.macros[nm].early_return or bool(lib.macros[nm].use))) for nm in calls]
    lib.main_wrap = [rng.choice([None, None, None, "else", "ifnot", "case", "forever", "while"]) for _ in calls]
    lib.main_starts_with_call = rng.random() < 0.25
    if lib.main_starts_with_call and lib.main_wrap:
        lib.main_wrap[0] = None
    lib.main_tail = rng.choice([0, 0, 1, 2, 3])
    return lib


def inlined_source(lib: Lib, variants: dict[str, str] | None = None, starts: list | None = None) -> str:
    """The program the property compares with: no macros at all, every call replaced by the macro's body with the
    parameters substituted by the call's arguments, `return` leaving only the macro (a jump to a label placed right
    after the expansion) and the body's labels private to each expansion (renamed per expansion). Written from the
    structure of the library, independently of the compiler."""
    variants = variants or {}
    counter = [0]

    def expand(name: str, args: list[str], ind: str) -> list[str]:
        m = lib.macros[name]
        counter[0] += 1
        k = counter[0]
        bind = {p: (args[i] if i < len(args) else p) for i, p in enumerate(m.params)}

        def sub(text: str) -> str:
            return bind.get(text, text)

        t = f"t_{m.name}_{variants.get(m.name, 'a')}"
        out = []
        if m.label_only:
            return [f"{ind}@again_{k};", f"{ind}@ret_{k};"]
        out.append("#START")
        first_call = m.call_first and m.callees
        if not first_call:
            out.append(f"{ind}{t}_0({', '.join(sub(p) for p in m.params)});")
        if m.posmark and not first_call:
            out.append(f"{ind}{t}_p(Position<'pm_{m.name}', 3, 4.5>);")
        if m.early_return and m.params and not first_call:
            out += [f"{ind}if ({sub(m.params[0])} == 1) {{", f"{ind}    {t}_r();", f"{ind}    jump @ret_{k};", f"{ind}}}"]
        if m.use and m.params and not first_call:
            out += use_lines(m.use, t, sub(m.params[0]), f"jump @ret_{k};", ind)
        if m.label and not first_call:
            out += [f"{ind}@again_{k};", f"{ind}{t}_l();", f"{ind}if ($LOOP_{m.name} < 3) {{ jump @again_{k}; }}"]
        for i, (callee, cargs) in enumerate(zip(m.callees, m.arg_plan)):
            wrap = m.wrap_plan[i] if i < len(m.wrap_plan) else None
            out += wrap_lines(wrap, t, i, expand(callee, [sub(a) for a in cargs], ind + "    " + wrap_indent(wrap)) if wrap else expand(callee, [sub(a) for a in cargs], ind), ind)
            out.append(f"{ind}{t}_{i + 1}();")
        if m.tail == "return":
            out.append(f"{ind}jump @ret_{k};")
        elif m.tail:
            out.append(f"{ind}{m.tail};")
        out.append(f"{ind}@ret_{k};")
        return out

    lines = ["def 0 {"] + ([] if getattr(lib, "main_starts_with_call", False) else ["    main_0();"])
    for i, (name, args) in enumerate(lib.main_calls):
        wrap = lib.main_wrap[i] if i < len(getattr(lib, "main_wrap", [])) else None
        if wrap == "else":
            lines += [f"    if ($W{i} == 1) {{", f"        main_then_{i}();", "    } else {"] + expand(name, list(args), "        ") + ["    }"]
        elif wrap == "ifnot":
            lines += [f"    if not ($W{i} == 1) {{"] + expand(name, list(args), "        ") + ["    }"]
        elif wrap == "case":
            lines += [f"    switch ($W{i}) {{", "        case 1:"] + expand(name, list(args), "            ") + ["            break;", "        default:",
                      f"            main_default_{i}();", "    }"]
        elif wrap in ("forever", "while"):
            lines += wrap_lines(wrap, "main", i, expand(name, list(args), "        "), "    ")
        else:
            lines += expand(name, list(args), "    ")
        lines.append(f"    main_{i + 1}();")
    lines += MAIN_TAILS[getattr(lib, "main_tail", 0)]
    lines += ["    end;", "}"]
    if starts is not None:
        import re

        pending = False
        for ln in lines:
            if ln == "#START":
                pending = True
                continue
            mt = re.match(r"\s*t_(\w+)\(", ln)
            if mt and pending:
                macro, _variant, n = mt.group(1).rsplit("_", 2)
                starts.append((macro, n))
            if not ln.strip().startswith("@"):
                pending = False
    return "\n".join(ln for ln in lines if ln != "#START") + "\n"


def expansion_starts(lib: Lib) -> list[tuple[str, str]]:
    """(macro, op suffix) of the first op of every expansion that emits an op, in textual order; nested expansions that
    begin with the same op count once."""
    starts: list = []
    inlined_source(lib, starts=starts)
    return starts


def single_file_source(lib: Lib, order: list[str], variants: dict[str, str] | None = None, only: set[str] | None = None) -> str:
    """The whole library in one file, macros in the given order."""
    variants = variants or {}
    parts = [lib.body(lib.macros[nm], variants.get(nm, "a")) for nm in order if only is None or nm in only]
    return "\n\n".join(parts + [lib.main_body()]) + "\n"


# ---- worlds --------------------------------------------------------------------------------------

DIRS = ["/proj/macros/v:1", "/proj/macros/.hid", "/proj/SCRIPT", "/proj/SCRIPT_common", "/proj/SCRIPT_common", "/proj/SCRIPT/lib", "/proj/macros", "/proj/macros/sub", "/opt/shared", "/opt/shared/deep", "/opt/shared/deep/er", "/opt/shared/deep/er"]


class World:
    """A file layout of one library: which macro lives in which file, how files import each other."""

    def __init__(self):
        self.vfs = Vfs("/proj")
        self.main = "/proj/SCRIPT/main.exps"  # path as given to compile() (may go through a symlink)
        self.lookup: list[str] = []
        self.file_of: dict[str, str] = {}  # macro -> real path of defining file (the one the model resolves to)
        self.variant_of: dict[str, str] = {}
        self.files: dict[str, dict] = {}  # real path -> {"macros": [...], "imports": [(style, text, target real path)]}
        self.notes: list[str] = []
        self.lib = None

    def dump(self) -> dict:
        return {"vfs": self.vfs.dump(), "main": self.main, "lookup": self.lookup, "file_of": self.file_of,
                "variant_of": self.variant_of, "notes": self.notes}


def _rel_import(from_dir: str, to_file: str) -> str:
    r = posixpath.relpath(to_file, from_dir)
    return r if r.startswith("..") else "./" + r


def render_file(lib: Lib, macros: list[str], imports: list[str], variants: dict[str, str], with_main: bool, style: str = "plain") -> str:
    """style: plain | comments (comments and blank lines between the import statements, single-quoted paths) | crlf"""
    if style == "comments":
        parts = []
        for n, i in enumerate(imports):
            parts += [f"// import number {n}", "", f"import '{i}'; /* trailing */" if n % 2 else f'import "{i}";']
    else:
        parts = [f'import "{i}";' for i in imports]
    if parts:
        parts.append("")
    parts += [lib.body(lib.macros[nm], variants.get(nm, "a")) + "\n" for nm in macros]
    if with_main:
        parts.append(lib.main_body())
    text = "\n".join(parts) + "\n"
    if style == "crlf":
        text = text.replace("\n", "\r\n")
    return text


def gen_world(lib: Lib, rng: random.Random, knobs: dict | None = None) -> World:
    k = {"files": rng.randint(1, 5), "symlinks": rng.random() < 0.4, "shadow": rng.random() < 0.35,
         "main_via_symlink": rng.random() < 0.2, "permute": True}
    if knobs:
        k.update(knobs)
    w = World()
    w.lib = lib
    nfiles = k["files"]
    # files[0] is the main file; macro files get directories and names
    paths = [posixpath.join(w.main)]
    used = set()
    alias_dirs = ["/opt/shared/deep/er", "/opt/shared/deep/er", "/opt/shared/deep", "/opt/shared"]
    for i in range(1, nfiles):
        # worlds with symlink aliases put most files behind the aliases (that is where physical and textual path
        # handling differ)
        d = rng.choice(alias_dirs) if (k["symlinks"] and rng.random() < 0.7) else rng.choice(DIRS)
        nm = f"m{i}_{rng.choice(['x', 'y', 'lib'])}.exps"
        p = posixpath.join(d, nm)
        while p in used:
            p = posixpath.join(d, f"m{i}_{len(used)}.exps")
        used.add(p)
        paths.append(p)
    # assign macros to files so that imports only go from lower to higher file index (no import cycle):
    # deeper callees must not sit in a lower-index file than their callers
    memo: dict = {}
    by_depth = sorted(lib.macros, key=lambda nm: -lib.depth(nm, memo))  # callers first
    fidx: dict[str, int] = {}
    for nm in by_depth:
        callers = [c for c in lib.macros if nm in lib.macros[c].callees]
        lo = max([fidx[c] for c in callers if c in fidx], default=0)
        fidx[nm] = rng.randint(lo, nfiles - 1)
    # lookup paths: a subset of directories that contain macro files, absolute
    lookup_dirs = sorted({posixpath.dirname(p) for p in paths[1:]})
    # sometimes the lookup path is the PARENT of the file's directory: the import is then spelled `dir/file`
    lookup_dirs = sorted({(posixpath.dirname(d) if (rng.random() < 0.3 and d.count("/") > 1) else d) for d in lookup_dirs})
    rng.shuffle(lookup_dirs)
    w.lookup = lookup_dirs[: rng.randint(0, min(3, len(lookup_dirs)))]
    if k["symlinks"]:
        w.vfs.mkdir("/opt/shared")
        w.vfs.symlink("/proj/ext", "/opt/shared")  # directory alias
        # an alias whose depth differs from its target's: `..` behind it must be resolved physically, not textually
        w.vfs.mkdir("/opt/shared/deep/er")
        w.vfs.symlink("/proj/er", "/opt/shared/deep/er")
    file_macros: dict[int, list[str]] = {i: [] for i in range(nfiles)}
    for nm, i in fidx.items():
        file_macros[i].append(nm)
    for i in file_macros:
        if k["permute"]:
            rng.shuffle(file_macros[i])
        else:
            file_macros[i].sort(key=lambda nm: lib.order.index(nm))
    # shadowing: a decoy file with the same relative name under a LATER lookup path (and one outside the list)
    decoys: list[tuple[str, int]] = []
    # imports
    for i in range(nfiles):
        need = sorted({fidx[c] for nm in file_macros[i] for c in lib.macros[nm].callees if fidx[c] != i})
        if i == 0:
            need = sorted(set(need) | {fidx[nm] for nm, _ in lib.main_calls if fidx[nm] != 0})
        # macros of a file's imports are passed on to its importers: sometimes rely on that (drop a direct import of a
        # file that is reachable through another import)
        if k.get("transitive", rng.random() < 0.4) and len(need) > 1:
            def _needs(x):
                out = {fidx[c] for nm in file_macros[x] for c in lib.macros[nm].callees if fidx[c] != x}
                return out

            def _reach(x, seen=None):
                seen = set() if seen is None else seen
                for y in _needs(x):
                    if y not in seen:
                        seen.add(y)
                        _reach(y, seen)
                return seen

            kept = list(need)
            for j in list(need):
                if any(j in _reach(o) for o in kept if o != j):
                    kept.remove(j)
                    w.transitive_only = getattr(w, "transitive_only", 0) + 1
            need = kept
        imports = []
        src_dir = posixpath.dirname(paths[i])
        for j in need:
            tgt = paths[j]
            styles = ["rel", "abs"]
            for lp in w.lookup:
                if tgt.startswith(lp + "/"):
                    styles += ["lookup", "lookup"]
                    break
            if k["symlinks"] and tgt.startswith("/opt/shared/deep/er/"):
                styles += ["abs_alias_deep", "abs_alias_deep"]
            elif k["symlinks"] and tgt.startswith("/opt/shared/"):
                styles.append("abs_alias")
            st = rng.choice(styles)
            if st == "rel":
                text = _rel_import(src_dir, tgt)
            elif st == "abs":
                text = tgt
            elif st == "abs_alias":
                text = "/proj/ext/" + tgt[len("/opt/shared/"):]
            elif st == "abs_alias_deep":
                text = "/proj/er/" + tgt[len("/opt/shared/deep/er/"):]
            else:
                lp = next(lp for lp in w.lookup if tgt.startswith(lp + "/"))
                text = tgt[len(lp) + 1:]
                # the same relative name must not exist under an EARLIER lookup path (unless we shadow on purpose)
                earlier = w.lookup[: w.lookup.index(lp)]
                if k["shadow"] and rng.random() < 0.7:
                    later = w.lookup[w.lookup.index(lp) + 1:]
                    for dl in later + ["/proj/unlisted"]:
                        decoys.append((posixpath.join(dl, text), j))
                for e in earlier:
                    if posixpath.join(e, text) in used:
                        st = "abs"
                        text = tgt
                        break
                else:
                    # a DIRECTORY named like the import under an earlier lookup path is not the file that is looked for
                    for e in earlier:
                        if rng.random() < 0.3 and not any(u.startswith(posixpath.join(e, text) + "/") or u == posixpath.join(e, text) for u in used):
                            w.vfs.mkdir(posixpath.join(e, text))
                            w.notes.append(f"directory {posixpath.join(e, text)} under an earlier lookup path")
            imports.append((st, text, tgt))
        w.files[paths[i]] = {"macros": file_macros[i], "imports": imports}
    for nm, i in fidx.items():
        w.file_of[nm] = paths[i]
        w.variant_of[nm] = "a"
    for p, info in w.files.items():
        style = rng.choice(["plain", "plain", "plain", "comments", "crlf"]) if k.get("styles", True) else "plain"
        info["style"] = style
        w.vfs.write(p, render_file(lib, info["macros"], [t for _, t, _ in info["imports"]], w.variant_of, p == paths[0], style))
    for dp, j in decoys:
        if dp in w.vfs.nodes or dp in used:
            continue
        # decoy: same macro names, other tags, no imports of its own callees needed? keep callees importable:
        info = w.files[paths[j]]
        w.vfs.write(dp, render_file(lib, info["macros"], [t if t.startswith("/") else _abs_of(paths[j], t, tt) for _, t, tt in info["imports"]],
                                    {nm: "decoy" for nm in info["macros"]}, False))
        w.notes.append(f"decoy {dp} shadows nothing (later lookup path / unlisted dir)")
    # lookup paths as a caller may spell them: with a trailing slash, a `.` segment, or through `..`
    spelled = []
    for lp in w.lookup:
        c = rng.random()
        if c < 0.1:
            lp = lp + "/"
        elif c < 0.2:
            lp = lp + "/."
        elif c < 0.3 and lp.count("/") > 1:
            lp = posixpath.dirname(lp) + "/../" + posixpath.basename(posixpath.dirname(lp)) + "/" + posixpath.basename(lp)
        spelled.append(lp)
    w.lookup = spelled
    if k["main_via_symlink"]:
        w.vfs.symlink("/proj/S", "/proj/SCRIPT")
        w.main = "/proj/S/main.exps"
        w.notes.append("main given through a symlinked directory")
    return w


def _abs_of(importer: str, text: str, target: str) -> str:
    return target
