"""Seeded generator of accepted ExplorerScript programs (DESIGN.md section 3).

The claimed properties compare the code with itself under another history / schedule / layout / fault,
so programs only have to be *accepted* and *diverse enough to drive every pass*. Validity rules of
the language (labels defined, break/continue placement, last case non-empty, one simple statement in a
with-block, ...) are enforced by construction.
"""
from __future__ import annotations

import random

PPL = "$PERFORMANCE_PROGRESS_LIST"

OPS_PLAIN = [
    "op_a", "op_b", "WaitExecuteLives", "message_Talk", "debug_Print", "camera_Move", "se_Play",
    "Wait", "screen_FadeIn", "supervision_Acting", "bgm_PlayFadeIn", "MovePositionMark", "SetDirection",
    "Turn2Direction", "message_Close", "CallCommon", "back_SetGround",
]
OPS_SWITCH_HEADER = ["ProcessSpecial", "message_Menu", "message_SwitchMenu", "message_SwitchMenu2", "main_EnterAdventure"]
CONSTS = ["CONST_A", "ACTOR_PLAYER", "DIRECTION_DOWN", "LEVEL_P01", "FACE_HAPPY", "DMODE_OPEN", "OBJECT_X_1", "CORO_LIVES"]
VARS = ["$SCENARIO_MAIN", "$VAR_A", "$VAR_B", "$EVENT_LOCAL", "$DUNGEON_SELECT"]
LANGS = ["english", "french", "german", "italian", "spanish"]
WORDS = ["Hello", "World", "it's", 'say "hi"', "[CN]name[CR]", "a\\b", "  two spaces", "ünï", "100%", "{x}", "", "tab\there", "#", "//nocomment", "/*nc*/"]
COND_OPS = ["FALSE", "TRUE", "==", ">", "<", ">=", "<=", "!=", "&", "^", "&<<"]
SCN_OPS = ["==", ">", "<", ">=", "<="]
ASSIGN_OPS = ["=", "-=", "+=", "*=", "/="]
CTX_KINDS = ["actor", "object", "performer"]

DEFAULT_KNOBS = {
    "max_depth": 3,
    "max_stmts": 5,
    "n_routines": (1, 4),
    "coroutines": False,
    "p_block": 0.45,
    "features": None,  # None = all
    "macros": 0,  # number of local macros
    "dead_code": 0.03,
    "labels": True,
    "indent_unit": "    ",
    "compact": False,
    "budget": 40,  # statements per program, roughly
}

ALL_FEATURES = [
    "op", "inline_ctx", "with", "assign", "if", "switch", "msgswitch", "forever", "while", "for",
    "label_jump", "call", "ctrl", "strings", "langstr", "posmark", "fixed", "bases",
]


def swarm_knobs(rng: random.Random, size: str = "medium") -> dict:
    k = dict(DEFAULT_KNOBS)
    if size == "small":
        k["max_depth"] = rng.choice([1, 2])
        k["max_stmts"] = rng.choice([2, 3])
        k["n_routines"] = (1, 2)
        k["budget"] = rng.choice([6, 10, 15])
    elif size == "large":
        k["max_depth"] = rng.choice([3, 4])
        k["max_stmts"] = rng.choice([4, 6, 8])
        k["n_routines"] = (2, 6)
        k["budget"] = rng.choice([60, 100, 140])
    else:
        k["max_depth"] = rng.choice([1, 2, 3])
        k["max_stmts"] = rng.choice([2, 3, 5])
        k["n_routines"] = (1, 4)
        k["budget"] = rng.choice([20, 30, 45])
    feats = [f for f in ALL_FEATURES if rng.random() < 0.75]
    if "op" not in feats:
        feats.append("op")
    k["features"] = feats
    k["coroutines"] = rng.random() < 0.2
    k["p_block"] = rng.choice([0.2, 0.45, 0.7])
    k["macros"] = rng.choice([0, 0, 1, 2, 3])
    k["dead_code"] = rng.choice([0.0, 0.0, 0.05])
    k["compact"] = rng.random() < 0.15
    k["indent_unit"] = rng.choice(["    ", "  ", "\t", ""])
    return k


class _Scope:
    def __init__(self, in_macro: bool, macro_vars: list[str]):
        self.in_macro = in_macro
        self.macro_vars = macro_vars
        self.loop = 0
        self.case = 0
        self.intlike_used: set[str] = set()  # macro variables used where only an integer/constant makes sense


class ExpsGen:
    def __init__(self, rng: random.Random, knobs: dict | None = None):
        self.r = rng
        self.k = dict(DEFAULT_KNOBS)
        if knobs:
            self.k.update(knobs)
        self.feats = set(self.k["features"] or ALL_FEATURES)
        self._label_n = 0
        self._pending_jumps: list[str] = []
        self.macros: list[tuple[str, list[str], set[str]]] = []  # (name, vars, int-like vars) callable so far
        self.opname_prefix = ""
        self.budget = self.k["budget"]

    # ---- atoms -------------------------------------------------------------------------------
    def has(self, f: str) -> bool:
        return f in self.feats

    def integer(self, small: bool = False) -> str:
        r = self.r
        v = r.choice([0, 1, 2, 3, 7, 10, 255]) if small else r.choice([0, 1, 2, 5, 10, 42, 100, 255, 1000, -1, -7, 32767])
        if self.has("bases") and r.random() < 0.25:
            neg = "-" if v < 0 else ""
            a = abs(v)
            return neg + r.choice([hex(a), oct(a), bin(a), hex(a).upper().replace("0X", "0x")])
        return str(v)

    def uint(self) -> str:
        return str(self.r.choice([0, 1, 2, 3, 5, 8, 13, 30]))

    def const(self, sc: _Scope | None = None, as_arg: bool = False) -> str:
        if sc is not None and sc.macro_vars and self.r.random() < 0.5:
            v = self.r.choice(sc.macro_vars)
            if not as_arg:
                sc.intlike_used.add(v)
            return v
        return self.r.choice(CONSTS + VARS)

    def var(self, sc: _Scope | None = None) -> str:
        if sc is not None and sc.macro_vars and self.r.random() < 0.3:
            v = self.r.choice(sc.macro_vars)
            sc.intlike_used.add(v)
            return v
        return self.r.choice(VARS)

    def int_like(self, sc: _Scope | None = None) -> str:
        return self.const(sc) if self.r.random() < 0.5 else self.integer()

    def string_content(self, multiline_ok: bool = True) -> str:
        r = self.r
        n = r.choice([0, 1, 1, 2, 3])
        s = " ".join(r.choice(WORDS) for _ in range(n))
        if multiline_ok and r.random() < 0.25:
            s += "\n" + r.choice(WORDS) + (("\n  " + r.choice(WORDS)) if r.random() < 0.5 else "")
        return s

    def string_lit(self, content: str | None = None) -> str:
        """A literal the compiler reads back as `content` (single-line forms only: exact by construction)."""
        r = self.r
        if content is None:
            content = self.string_content()
        q = r.choice(["'", '"'])
        # the compiler un-escapes \" \' \n only; a lone backslash stays. Avoid sequences it would rewrite.
        body = content.replace("\\n", "\\ n")
        body = body.replace("\n", "\\n")
        if q == "'":
            body = body.replace("'", "\\'")
        else:
            body = body.replace('"', '\\"')
        if body.endswith("\\") and not body.endswith("\\\\"):
            body += " "
        return q + body + q

    def lang_string(self) -> str:
        r = self.r
        langs = r.sample(LANGS, r.randint(1, 3))
        sep = " " if self.k["compact"] else "\n        "
        parts = [f"{lang}={self.string_lit()}" for lang in langs]
        trail = "," if r.random() < 0.5 else ""
        return "{" + sep + ("," + sep).join(parts) + trail + sep + "}"

    def string(self) -> str:
        if self.has("langstr") and self.r.random() < 0.3:
            return self.lang_string()
        return self.string_lit()

    def posmark(self) -> str:
        r = self.r
        x = str(r.choice([0, 1, 10, 20, 63, -1, -4]))
        y = str(r.choice([0, 2, 10, 31, -1, -12]))
        if r.random() < 0.4:
            x += ".5"
        if r.random() < 0.4:
            y += ".5"
        name = r.choice(["m0", "Mark One", "p_1", "ünï"])
        return f"Position<'{name}', {x}, {y}>"

    def fixed(self) -> str:
        return self.r.choice(["1.5", "-1.25", ".5", "-.75", "0.0", "12.125", "003.500"])

    def arg(self, sc: _Scope) -> str:
        r = self.r
        choices = ["int", "const"]
        if self.has("strings"):
            choices.append("str")
        if self.has("posmark"):
            choices.append("pos")
        if self.has("fixed"):
            choices.append("fixed")
        c = r.choice(choices)
        if c == "int":
            return self.integer()
        if c == "const":
            return self.const(sc, as_arg=True)
        if c == "str":
            return self.string()
        if c == "pos":
            return self.posmark()
        return self.fixed()

    def arglist(self, sc: _Scope, lo: int = 0, hi: int = 3) -> str:
        n = self.r.randint(lo, hi)
        a = ", ".join(self.arg(sc) for _ in range(n))
        if n and self.r.random() < 0.1:
            a += ","
        return a

    def opname(self) -> str:
        return self.opname_prefix + self.r.choice(OPS_PLAIN)

    def operation(self, sc: _Scope, allow_ctx: bool = True) -> str:
        ctx = ""
        if allow_ctx and self.has("inline_ctx") and self.r.random() < 0.15:
            ctx = f"<{self.r.choice(CTX_KINDS)} {self.int_like(sc)}>"
        return f"{self.opname()}{ctx}({self.arglist(sc)})"

    # ---- headers -----------------------------------------------------------------------------
    def if_header(self, sc: _Scope) -> str:
        r = self.r
        c = r.choice(["op", "op", "bit", "neg", "scn", "opvar", "ppl"])
        if c == "op":
            return f"{self.var(sc)} {r.choice(COND_OPS)} {self.int_like(sc)}"
        if c == "opvar":
            return f"{self.var(sc)} {r.choice(COND_OPS)} value({self.var(sc)})"
        if c == "bit":
            return f"{r.choice(VARS)}[{self.uint()}]"
        if c == "ppl":
            return f"{'not ' if r.random() < 0.5 else ''}{PPL}[{self.uint()}]"
        if c == "neg":
            return f"{'not ' if r.random() < 0.4 else ''}{r.choice(['debug', 'edit', 'variation'])}"
        return f"scn({self.var(sc)}) {r.choice(SCN_OPS)} [{self.uint()}, {self.uint()}]"

    def if_headers(self, sc: _Scope) -> str:
        n = 1 if self.r.random() < 0.7 else self.r.randint(2, 3)
        return " || ".join(self.if_header(sc) for _ in range(n))

    def switch_header(self, sc: _Scope) -> str:
        r = self.r
        c = r.choice(["var", "var", "scn", "random", "dmode", "sector", "op"])
        if c == "var":
            return self.var(sc)
        if c == "scn":
            return f"scn({self.var(sc)})[{r.choice([0, 1])}]"
        if c == "random":
            return f"random({self.int_like(sc)})"
        if c == "dmode":
            return f"dungeon_mode({self.int_like(sc)})"
        if c == "sector":
            return "sector()"
        return f"{r.choice(OPS_SWITCH_HEADER)}({self.arglist(sc, 0, 2)})"

    def case_header(self, sc: _Scope, menu: bool) -> str:
        r = self.r
        if menu and r.random() < 0.6:
            if r.random() < 0.6 and self.has("strings"):
                return f"menu({self.string()})"
            return f"menu2({self.int_like(sc)})"
        c = r.choice(["val", "val", "op", "opvar"])
        if c == "val":
            return self.int_like(sc)
        if c == "op":
            return f"{r.choice(COND_OPS)} {self.int_like(sc)}"
        return f"{r.choice(COND_OPS)} value({self.var(sc)})"

    # ---- statements --------------------------------------------------------------------------
    def new_label(self) -> str:
        self._label_n += 1
        return f"l{self._label_n}"

    def assignment(self, sc: _Scope) -> str:
        r = self.r
        c = r.choice(["reg", "reg", "regvar", "bit", "pplbit", "scn", "clear", "init", "reset", "resetdr", "advlog", "dmode"])
        v = self.var(sc)
        if c == "reg":
            return f"{v} {r.choice(ASSIGN_OPS)} {self.int_like(sc)}"
        if c == "regvar":
            return f"{v} {r.choice(ASSIGN_OPS)} value({self.var(sc)})"
        if c == "bit":
            return f"{r.choice(VARS)}[{self.uint()}] = {r.choice([0, 1])}"
        if c == "pplbit":
            return f"{PPL}[{self.uint()}] = {r.choice([0, 1])}"
        if c == "scn":
            return f"{v} = scn[{self.uint()}, {self.uint()}]"
        if c == "clear":
            return f"clear {v}"
        if c == "init":
            return f"init {v}"
        if c == "reset":
            return f"reset scn({v})"
        if c == "resetdr":
            return "reset dungeon_result"
        if c == "advlog":
            return f"adventure_log = {self.int_like(sc)}"
        return f"dungeon_mode({self.int_like(sc)}) = {r.choice(['DMODE_OPEN', 'DMODE_CLOSED', 'DMODE_REQUEST', 'OPEN_AND_REQUEST', '1', '0', '2', '3'])}"

    def simple_stmt(self, sc: _Scope, for_with: bool = False) -> str:
        """A simple statement without trailing ';' that neither is a label nor alters control flow."""
        if self.has("assign") and self.r.random() < 0.3:
            return self.assignment(sc)
        return self.operation(sc, allow_ctx=not for_with)

    def block(self, sc: _Scope, depth: int, ind: int, min_stmts: int = 0) -> list[str]:
        n = self.r.randint(min_stmts, self.k["max_stmts"])
        out: list[str] = []
        for i in range(n):
            if self.budget <= 0 and i >= min_stmts:
                break
            out += self.stmt(sc, depth if self.budget > 0 else 0, ind)
        return out

    def terminator(self, sc: _Scope) -> str:
        if sc.in_macro:
            return "return;"
        return self.r.choice(["end;", "hold;", "return;", "end;"])

    def stmt(self, sc: _Scope, depth: int, ind: int) -> list[str]:
        r = self.r
        self.budget -= 1
        I = self.k["indent_unit"] * ind
        kinds = ["op", "op", "op"]
        if self.has("assign"):
            kinds.append("assign")
        if self.has("with"):
            kinds.append("with")
        if self.has("ctrl"):
            kinds.append("ctrl")
        if self.has("label_jump") and self.k["labels"]:
            kinds.append("label")
        if self.macros:
            kinds += ["macro_call", "macro_call"]
        if depth > 0 and r.random() < self.k["p_block"]:
            kinds = [k for k in ["if", "switch", "msgswitch", "forever", "while", "for"] if self.has(k)] or kinds
        c = r.choice(kinds)
        if c == "op":
            return [f"{I}{self.operation(sc)};"]
        if c == "assign":
            return [f"{I}{self.assignment(sc)};"]
        if c == "with":
            inner = self.simple_stmt(sc, for_with=True)
            if self.k["compact"]:
                return [f"{I}with ({r.choice(CTX_KINDS)} {self.int_like(sc)}) {{ {inner}; }}"]
            return [f"{I}with ({r.choice(CTX_KINDS)} {self.int_like(sc)}) {{", f"{I}{self.k['indent_unit']}{inner};", f"{I}}}"]
        if c == "macro_call":
            name, mvars, intlike = r.choice(self.macros)
            args = [self.int_like(sc) if v in intlike else self.arg(sc) for v in mvars]
            if r.random() < 0.1:
                args.append(self.arg(sc))  # surplus arguments are ignored by the language
            return [f"{I}~{name}({', '.join(args)});"]
        if c == "ctrl":
            opts = []
            if sc.loop:
                opts += ["continue;", "break_loop;"]
            if sc.case:
                opts += ["break;"]
            if not opts or r.random() < 0.2:
                # a guarded early exit, so that what follows stays reachable
                t = self.terminator(sc)
                return [f"{I}if ({self.if_header(sc)}) {{", f"{I}{self.k['indent_unit']}{t}", f"{I}}}"]
            t = r.choice(opts)
            return [f"{I}if ({self.if_header(sc)}) {{", f"{I}{self.k['indent_unit']}{t}", f"{I}}}"]
        if c == "label":
            name = self.new_label()
            self._labels_here.append(name)
            sigil = "@" if r.random() < 0.9 else "§"
            out = [f"{I}{sigil}{name};", f"{I}{self.operation(sc)};"]
            return out
        if c == "if":
            return self.if_block(sc, depth, ind)
        if c == "switch":
            return self.switch_block(sc, depth, ind)
        if c == "msgswitch":
            return self.msgswitch_block(sc, ind)
        if c == "forever":
            return self.loop_block(sc, depth, ind, "forever")
        if c == "while":
            return self.loop_block(sc, depth, ind, "while")
        if c == "for":
            return self.loop_block(sc, depth, ind, "for")
        raise AssertionError(c)

    def if_block(self, sc: _Scope, depth: int, ind: int) -> list[str]:
        r = self.r
        I = self.k["indent_unit"] * ind
        out = [f"{I}if {'not ' if r.random() < 0.2 else ''}({self.if_headers(sc)}) {{"]
        out += self.block(sc, depth - 1, ind + 1)
        for _ in range(r.choice([0, 0, 1, 2])):
            out.append(f"{I}}} elseif {'not ' if r.random() < 0.2 else ''}({self.if_headers(sc)}) {{")
            out += self.block(sc, depth - 1, ind + 1)
        if r.random() < 0.5:
            out.append(f"{I}}} else {{")
            out += self.block(sc, depth - 1, ind + 1)
        out.append(f"{I}}}")
        return out

    def switch_block(self, sc: _Scope, depth: int, ind: int) -> list[str]:
        r = self.r
        I = self.k["indent_unit"] * ind
        I1 = self.k["indent_unit"] * (ind + 1)
        I2 = self.k["indent_unit"] * (ind + 2)
        hdr = self.switch_header(sc)
        menu = hdr.startswith("message_SwitchMenu")
        out = [f"{I}switch ({hdr}) {{"]
        n = r.randint(1, 4)
        default_at = r.randrange(n + 1) if r.random() < 0.6 else -1
        if n == 1 and default_at == -1 and r.random() < 0.3:
            default_at = 1
        entries = []
        for i in range(n + 1):
            if i == default_at:
                entries.append("default:")
            if i < n:
                entries.append(f"case {self.case_header(sc, menu)}:")
        sc.case += 1
        for i, e in enumerate(entries):
            out.append(f"{I1}{e}")
            last = i == len(entries) - 1
            if last or r.random() < 0.75:
                body = self.block(sc, depth - 1, ind + 2, min_stmts=1)
                out += body
                if r.random() < 0.6:
                    out.append(f"{I2}break;")
        sc.case -= 1
        out.append(f"{I}}}")
        return out

    def msgswitch_block(self, sc: _Scope, ind: int) -> list[str]:
        r = self.r
        I = self.k["indent_unit"] * ind
        I1 = self.k["indent_unit"] * (ind + 1)
        I2 = self.k["indent_unit"] * (ind + 2)
        out = [f"{I}{r.choice(['message_SwitchTalk', 'message_SwitchMonologue'])} ({self.int_like(sc)}) {{"]
        n = r.randint(1, 3)
        for _ in range(n):
            out.append(f"{I1}case {self.int_like(sc)}:")
            out.append(f"{I2}{self.string()}")
        if r.random() < 0.6:
            out.append(f"{I1}default:")
            out.append(f"{I2}{self.string()}")
        out.append(f"{I}}}")
        return out

    def loop_block(self, sc: _Scope, depth: int, ind: int, kind: str) -> list[str]:
        r = self.r
        I = self.k["indent_unit"] * ind
        I1 = self.k["indent_unit"] * (ind + 1)
        if kind == "forever":
            out = [f"{I}forever {{"]
        elif kind == "while":
            out = [f"{I}while {'not ' if r.random() < 0.2 else ''}({self.if_header(sc)}) {{"]
        else:
            out = [f"{I}for ({self.simple_stmt(sc)}; {self.if_header(sc)}; {self.simple_stmt(sc)};) {{"]
        sc.loop += 1
        saved_case = sc.case
        sc.case = 0  # break; inside a loop inside a case would leave the loop through the switch end: keep it simple
        out += self.block(sc, depth - 1, ind + 1, min_stmts=1)
        if kind == "forever":
            # give forever loops a way out so that what follows is reachable
            out += [f"{I1}if ({self.if_header(sc)}) {{", f"{I1}{self.k['indent_unit']}break_loop;", f"{I1}}}"]
        sc.case = saved_case
        sc.loop -= 1
        out.append(f"{I}}}")
        return out

    # ---- top level ---------------------------------------------------------------------------
    def routine_body(self, sc: _Scope, ind: int = 1) -> list[str]:
        self._labels_here = []
        out = self.block(sc, self.k["max_depth"], ind, min_stmts=1)
        I = self.k["indent_unit"] * ind
        r = self.r
        # jumps / calls to labels of this routine (all defined: placed after generation)
        if self._labels_here and self.has("label_jump"):
            for _ in range(r.choice([0, 1, 1, 2])):
                lbl = r.choice(self._labels_here)
                kw = "call" if (self.has("call") and r.random() < 0.3) else "jump"
                guard = [f"{I}if ({self.if_header(sc)}) {{", f"{I}{self.k['indent_unit']}{kw} @{lbl};", f"{I}}}"]
                # only insert at top-level statement boundaries of this body
                cands = self._boundaries(out) + [len(out)]
                pos = r.choice(cands)
                out[pos:pos] = guard
        if r.random() < self.k["dead_code"]:
            out += [f"{I}end;", f"{I}{self.operation(sc)};"]
        out.append(f"{I}{self.terminator(sc)}")
        return out

    def _boundaries(self, lines: list[str]) -> list[int]:
        # a line is a top-level boundary if the brace depth before it (within this body) is zero, it does not
        # start with '}' and the previous line ended a statement
        depth = 0
        out = []
        prev_complete = True
        for i, line in enumerate(lines):
            st = line.strip()
            if depth == 0 and prev_complete and not st.startswith("}"):
                out.append(i)
            s = _strip_strings(line)
            depth += s.count("{") - s.count("}")
            prev_complete = s.rstrip().endswith(";") or s.rstrip().endswith("}")
        return out

    def macro_def(self, name: str, nvars: int) -> list[str]:
        mvars = [f"$p{i}" for i in range(nvars)]
        sc = _Scope(True, mvars)
        self._last_macro_scope = sc
        hdr = f"macro {name}({', '.join(mvars)}) {{"
        self._labels_here = []
        body = self.block(sc, max(1, self.k["max_depth"] - 1), 1, min_stmts=1)
        if self.r.random() < 0.3:
            I = self.k["indent_unit"]
            body += [f"{I}if ({self.if_header(sc)}) {{", f"{I}{I}return;", f"{I}}}", f"{I}{self.operation(sc)};"]
        return [hdr] + body + ["}"]

    def program(self) -> str:
        r = self.r
        lines: list[str] = []
        # local macros first (callee-first order so that later ones may call earlier ones)
        for i in range(self.k["macros"]):
            name = f"m{i}"
            nv = r.randint(0, 2)
            lines += self.macro_def(name, nv)
            lines.append("")
            self.macros.append((name, [f"$p{j}" for j in range(nv)], set(self._last_macro_scope.intlike_used)))
        lo, hi = self.k["n_routines"]
        n = r.randint(lo, hi)
        if self.k["coroutines"]:
            for i in range(n):
                sc = _Scope(False, [])
                if i > 0 and r.random() < 0.15:
                    lines += [f"coro CORO_{i} {{", "    alias previous;", "}"]
                else:
                    lines += [f"coro CORO_{i} {{"] + self.routine_body(sc) + ["}"]
                lines.append("")
        else:
            for i in range(n):
                sc = _Scope(False, [])
                kind = r.choice(["def", "def", "actor", "object", "performer"])
                if kind == "def":
                    hdr = f"def {i} {{"
                else:
                    tgt = r.choice(["ACTOR_PLAYER", "3", "OBJECT_X_1", "0"])
                    paren = r.random() < 0.3
                    hdr = f"def {i} for {kind} {'(' + tgt + ')' if paren else tgt} {{"
                if i > 0 and r.random() < 0.12:
                    lines += [hdr, "    alias previous;", "}"]
                else:
                    lines += [hdr] + self.routine_body(sc) + ["}"]
                lines.append("")
        if self.k["compact"]:
            return " ".join(line.strip() for line in lines if line.strip()) + "\n"
        return "\n".join(lines) + "\n"


def _strip_strings(line: str) -> str:
    out = []
    q = None
    i = 0
    while i < len(line):
        ch = line[i]
        if q:
            if ch == "\\":
                i += 2
                continue
            if ch == q:
                q = None
        elif ch in "'\"":
            q = ch
        else:
            out.append(ch)
        i += 1
    return "".join(out)


def generate(seed: int, size: str = "medium", knobs: dict | None = None) -> str:
    rng = random.Random(seed)
    k = swarm_knobs(rng, size)
    if knobs:
        k.update(knobs)
    return ExpsGen(rng, k).program()
