"""Well-formed SSB routine sets beyond what the compiler emits (DESIGN.md section 3, gen.ssb).

Works on the JSON routine-set encoding of simkit.model. Ops are first lifted to an identity-based form
(jump targets are references to ops, not offsets), mutated, and laid out again with fresh, possibly
gapped, strictly increasing offsets - the way a binary reader would number them.
"""
from __future__ import annotations

import copy
import random

from simkit.model import JUMP_PARAM_INDEX, FLOW_END

CTX_OPS = {"lives", "object", "performer"}


def lift(doc: dict) -> list[dict]:
    """-> routines: [{'hdr': {...}, 'ops': [{'id', 'op', 'params' (without jump param), 'tgt': id|None}]}]"""
    by_off = {}
    routines = []
    n = 0
    for r in doc["routines"]:
        ops = []
        for o in r["ops"]:
            n += 1
            node = {"id": n, "op": o["op"], "params": list(o["params"]), "tgt": None, "_off": o["off"]}
            by_off.setdefault(o["off"], node)
            ops.append(node)
        routines.append({"hdr": {k: r[k] for k in ("type", "linked_to", "linked_to_name", "coro")}, "ops": ops})
    for r in routines:
        for node in r["ops"]:
            ji = JUMP_PARAM_INDEX.get(node["op"])
            if ji is not None and ji < len(node["params"]) and isinstance(node["params"][ji], int):
                t = by_off.get(node["params"][ji])
                if t is not None:
                    node["tgt"] = t["id"]
                    del node["params"][ji]
                else:
                    node["tgt"] = ("dangling", node["params"][ji])
    return routines


def layout(routines: list[dict], rng: random.Random | None = None, gaps: bool = False, start: int = 0) -> dict:
    off = start
    offs = {}
    for r in routines:
        for node in r["ops"]:
            offs[node["id"]] = off
            step = 1
            if gaps and rng is not None:
                step = 1 + len(node["params"]) + (1 if node["tgt"] is not None else 0) + rng.choice([0, 0, 1, 2])
            off += step
    out = []
    for r in routines:
        ops = []
        for node in r["ops"]:
            params = list(node["params"])
            if node["tgt"] is not None:
                ji = JUMP_PARAM_INDEX[node["op"]]
                t = node["tgt"]
                params.insert(min(ji, len(params)), offs[t] if not isinstance(t, tuple) else t[1])
            ops.append({"off": offs[node["id"]], "op": node["op"], "params": params})
        out.append({**r["hdr"], "ops": ops})
    return {"routines": out}


def well_formed(doc: dict) -> tuple[bool, str]:
    """The well-formedness clause of C02/C06: targets exist, offsets increase, no path runs off the end of a
    routine, no cycle made of unconditional jumps only, the first routine is not empty."""
    offs = set()
    last = -1
    for r in doc["routines"]:
        for o in r["ops"]:
            if o["off"] <= last:
                return False, "offsets not increasing"
            last = o["off"]
            offs.add(o["off"])
    if not doc["routines"] or not doc["routines"][0]["ops"]:
        return False, "first routine empty"
    nxt = {}
    for r in doc["routines"]:
        ops = r["ops"]
        if not ops:
            continue
        if ops[-1]["op"] not in FLOW_END:
            return False, "routine does not end in a flow-ending op"
        if len(ops) >= 2 and ops[-2]["op"] in CTX_OPS:
            return False, "terminator runs in a context"
        for i, o in enumerate(ops):
            ji = JUMP_PARAM_INDEX.get(o["op"])
            if ji is not None:
                if ji >= len(o["params"]) or not isinstance(o["params"][ji], int):
                    return False, "jump op without target"
                if o["params"][ji] not in offs:
                    return False, "dangling target"
                if o["op"] == "Jump":
                    nxt[o["off"]] = o["params"][ji]
            if o["op"] in CTX_OPS and (i + 1 >= len(ops)):
                return False, "context op at end"
    for s in nxt:
        seen = set()
        cur = s
        while cur in nxt:
            if cur in seen:
                return False, "jump-only cycle"
            seen.add(cur)
            cur = nxt[cur]
    return True, ""


# ---- mutators (on the lifted form) -----------------------------------------------------------


def _all_nodes(routines):
    return [n for r in routines for n in r["ops"]]


def m_retarget(routines, rng):
    """Point one jump-carrying op at another op (jumps into blocks, irreducible loops, shared bodies)."""
    cands = [(ri, n) for ri, r in enumerate(routines) for n in r["ops"] if n["tgt"] is not None]
    if not cands:
        return "noop"
    ri, n = rng.choice(cands)
    pool = routines[ri]["ops"] if rng.random() < 0.8 else _all_nodes(routines)
    t = rng.choice(pool)
    n["tgt"] = t["id"]
    return f"retarget {n['op']}#{n['id']}->#{t['id']}"


def m_reorder_blocks(routines, rng):
    """Cut a routine into segments, make fall-through explicit with Jump ops, shuffle all but the first."""
    cands = [r for r in routines if len(r["ops"]) >= 3]
    if not cands:
        return "noop"
    r = rng.choice(cands)
    ops = r["ops"]
    k = rng.randint(1, min(3, len(ops) - 1))
    cuts = sorted(rng.sample(range(1, len(ops)), k))
    # never cut between a context op and the op it applies to
    cuts = [c for c in cuts if ops[c - 1]["op"] not in CTX_OPS]
    if not cuts:
        return "noop"
    segs = []
    prev = 0
    for c in cuts + [len(ops)]:
        segs.append(ops[prev:c])
        prev = c
    nid = max(n["id"] for n in _all_nodes(routines))
    for i, seg in enumerate(segs[:-1]):
        if seg[-1]["op"] not in FLOW_END:
            nid += 1
            seg.append({"id": nid, "op": "Jump", "params": [], "tgt": segs[i + 1][0]["id"]})
    rest = segs[1:]
    rng.shuffle(rest)
    r["ops"] = [n for seg in [segs[0]] + rest for n in seg]
    return f"reorder {len(segs)} segments"


def m_jump_only_routine(routines, rng):
    """A routine that consists only of a jump into another routine."""
    if len(routines) < 2:
        return "noop"
    i = rng.randrange(len(routines))
    others = [j for j in range(len(routines)) if j != i and routines[j]["ops"]]
    if not others:
        return "noop"
    j = rng.choice(others)
    nid = max(n["id"] for n in _all_nodes(routines)) + 1
    t = routines[j]["ops"][0] if rng.random() < 0.7 else rng.choice(routines[j]["ops"])
    # jumps that pointed into the replaced routine are redirected to the new op
    old_ids = {n["id"] for n in routines[i]["ops"]}
    routines[i]["ops"] = [{"id": nid, "op": "Jump", "params": [], "tgt": t["id"]}]
    for n in _all_nodes(routines):
        if n["tgt"] in old_ids:
            n["tgt"] = nid
    return f"routine {i} := Jump -> routine {j}"


def m_cross_routine_jump(routines, rng):
    if len(routines) < 2:
        return "noop"
    cands = [(ri, n) for ri, r in enumerate(routines) for n in r["ops"] if n["tgt"] is not None and n["op"] in ("Jump", "Call")]
    if not cands:
        return "noop"
    ri, n = rng.choice(cands)
    others = [j for j in range(len(routines)) if j != ri and routines[j]["ops"]]
    if not others:
        return "noop"
    t = rng.choice(routines[rng.choice(others)]["ops"])
    n["tgt"] = t["id"]
    return f"cross-routine {n['op']}#{n['id']}->#{t['id']}"


def m_unreachable(routines, rng):
    cands = [(r, i) for r in routines for i, n in enumerate(r["ops"]) if n["op"] in FLOW_END and i + 1 < len(r["ops"])]
    if not cands:
        return "noop"
    r, i = rng.choice(cands)
    nid = max(n["id"] for n in _all_nodes(routines)) + 1
    r["ops"].insert(i + 1, {"id": nid, "op": "op_unreachable", "params": [rng.randint(0, 9)], "tgt": None})
    return "unreachable op"


def m_redundant_jump(routines, rng):
    cands = [(r, i) for r in routines for i, n in enumerate(r["ops"]) if i > 0 and r["ops"][i - 1]["op"] not in CTX_OPS]
    if not cands:
        return "noop"
    r, i = rng.choice(cands)
    nid = max(n["id"] for n in _all_nodes(routines)) + 1
    r["ops"].insert(i, {"id": nid, "op": "Jump", "params": [], "tgt": r["ops"][i]["id"]})
    return "jump to next op"


def m_shared_case_body(routines, rng):
    """Make two case ops of one routine share a body (both target the same op)."""
    for r in rng.sample(routines, len(routines)):
        cases = [n for n in r["ops"] if n["op"].startswith("Case") and n["tgt"] is not None]
        if len(cases) >= 2:
            a, b = rng.sample(cases, 2)
            a["tgt"] = b["tgt"]
            return "shared case body"
    return "noop"


def m_backward_branch(routines, rng):
    """Turn a forward conditional branch into a backward one (loop the structurer did not create)."""
    cands = []
    for r in routines:
        for i, n in enumerate(r["ops"]):
            if n["op"].startswith("Branch") and n["tgt"] is not None and i > 0:
                cands.append((r, i, n))
    if not cands:
        return "noop"
    r, i, n = rng.choice(cands)
    n["tgt"] = r["ops"][rng.randrange(0, i)]["id"]
    return "backward branch"


MUTATORS = [
    m_retarget, m_retarget, m_reorder_blocks, m_jump_only_routine, m_cross_routine_jump, m_unreachable,
    m_redundant_jump, m_shared_case_body, m_backward_branch,
]


def m_jump_into_loop(routines, rng):
    """Retarget a forward jump that lies before a loop into the body of that loop (a second entry: the loop can no
    longer be written as a block, although the graph keeps its size)."""
    cands = []
    for r in routines:
        pos = {n["id"]: i for i, n in enumerate(r["ops"])}
        for j, n in enumerate(r["ops"]):
            if n["tgt"] in pos and pos[n["tgt"]] < j:  # back edge i <- j
                i = pos[n["tgt"]]
                for k in range(0, i):
                    m = r["ops"][k]
                    if m["tgt"] in pos and pos[m["tgt"]] > k and j - i >= 2:
                        cands.append((r, k, i, j))
    if not cands:
        return "noop"
    r, k, i, j = rng.choice(cands)
    r["ops"][k]["tgt"] = r["ops"][rng.randint(i + 1, j)]["id"]
    return "jump into loop body"


SAME_SIZE_MUTATORS = [m_jump_into_loop, m_jump_into_loop, m_retarget, m_retarget, m_backward_branch, m_shared_case_body, m_cross_routine_jump]


def sibling(doc: dict, rng: random.Random, tries: int = 12, mutators=None) -> dict | None:
    """A routine set with the same ops, offsets and sizes as `doc` but other jump targets: graphs of equal
    vertex / edge counts and different shape (what a memo keyed too weakly would confuse)."""
    base = lift(doc)
    for _ in range(tries):
        rs = copy.deepcopy(base)
        log = [rng.choice(mutators or SAME_SIZE_MUTATORS)(rs, rng) for _ in range(rng.choice([1, 1, 2]) if mutators is None else 1)]
        if all(x == "noop" for x in log):
            continue
        out = layout(rs, None, gaps=False, start=min((o["off"] for r in doc["routines"] for o in r["ops"]), default=0))
        # keep the original offsets (same numbering as doc)
        offs = [o["off"] for r in doc["routines"] for o in r["ops"]]
        new_offs = [o["off"] for r in out["routines"] for o in r["ops"]]
        if len(offs) != len(new_offs):
            continue
        remap = dict(zip(new_offs, offs))
        for r in out["routines"]:
            for o in r["ops"]:
                ji = JUMP_PARAM_INDEX.get(o["op"])
                if ji is not None and ji < len(o["params"]) and isinstance(o["params"][ji], int):
                    o["params"][ji] = remap.get(o["params"][ji], o["params"][ji])
                o["off"] = remap[o["off"]]
        ok, _ = well_formed(out)
        if ok and out != doc:
            return out
    return None


def mutate(doc: dict, rng: random.Random, n_mut: int | None = None, tries: int = 12) -> tuple[dict, list[str]]:
    """Apply 0..n mutators; returns a well-formed routine set (falls back to fewer mutations)."""
    base = lift(doc)
    if n_mut is None:
        n_mut = rng.choice([0, 1, 1, 2, 3])
    gaps = rng.random() < 0.5
    start = rng.choice([0, 0, 1, 7])
    for _ in range(tries):
        rs = copy.deepcopy(base)
        log = []
        for _ in range(n_mut):
            log.append(rng.choice(MUTATORS)(rs, rng))
        out = layout(rs, rng, gaps=gaps, start=start)
        ok, why = well_formed(out)
        if ok:
            return out, log + (["gapped offsets"] if gaps else []) + ([f"start={start}"] if start else [])
        n_mut = max(0, n_mut - 1)
    out = layout(base, rng, gaps=gaps, start=start)
    return out, (["gapped offsets"] if gaps else []) + ([f"start={start}"] if start else [])


def second_entry_family() -> list[dict]:
    """Routine sets of identical size in the layout a binary reader produces (explicit Jump ops, nothing optimised
    away): a conditional jump placed before a loop goes past the loop, or enters its body at different places
    ("jumps into blocks", "irreducible loops" of C06's quantifier). Same ops, same vertex and edge counts."""

    def R(t):
        C = {"t": "const", "v": "$C"}
        Z = {"t": "const", "v": "$Z"}
        ops = [("Start", [0]), ("Branch", [C, 1, 3]), ("Jump", [4]), ("Jump", [t]), ("Mid", [1]), ("D", [1]), ("Branch", [Z, 2, 10]),
               ("Jump", [8]), ("E", [2]), ("Jump", [5]), ("Nop", [0]), ("Fin", [9]), ("End", [])]
        return {"routines": [{"type": "GENERIC", "linked_to": -1, "linked_to_name": None, "coro": None,
                              "ops": [{"off": i, "op": n, "params": list(p)} for i, (n, p) in enumerate(ops)]}]}

    return [R(11), R(6), R(8), R(5), R(10)]


def handbuilt() -> list[tuple[str, dict]]:
    """A few fixed shapes named by C06 (kept tiny and readable)."""

    def R(ops, type="GENERIC", linked_to=-1, name=None, coro=None):
        return {"type": type, "linked_to": linked_to, "linked_to_name": name, "coro": coro, "ops": ops}

    def O(off, op, *params):
        return {"off": off, "op": op, "params": list(params)}

    V = {"t": "const", "v": "$VAR_A"}
    shapes = []
    # irreducible loop: two entries into a cycle
    shapes.append(("irreducible", {"routines": [R([
        O(0, "BranchBit", V, 1, 3), O(1, "op_a"), O(2, "op_b"), O(3, "op_c"), O(4, "BranchBit", V, 2, 2), O(5, "End")])]}))
    # jump into the middle of an if body
    shapes.append(("jump_into_block", {"routines": [R([
        O(0, "BranchBit", V, 1, 3), O(1, "Branch", V, 1, 5), O(2, "End"), O(3, "op_a"), O(4, "op_b"), O(5, "op_c"), O(6, "End")])]}))
    # routine that is only a jump into another routine
    shapes.append(("jump_only_routine", {"routines": [R([O(0, "Jump", 1)]), R([O(1, "op_b"), O(2, "End")])]}))
    # shared case bodies
    shapes.append(("shared_case_body", {"routines": [R([
        O(0, "Switch", V), O(1, "Case", 1, 4), O(2, "Case", 2, 4), O(3, "Jump", 6), O(4, "op_a"), O(5, "Jump", 6), O(6, "End")])]}))
    # coroutine + targeted routines + alias (empty) routine
    shapes.append(("kinds", {"routines": [
        R([O(0, "op_a"), O(1, "Return")], type="COROUTINE", linked_to=0, coro="CORO_A"),
        R([], type="COROUTINE", linked_to=0, coro="CORO_B"),
        R([O(2, "op_b"), O(3, "End")], type="COROUTINE", linked_to=0, coro="CORO_C")]}))
    shapes.append(("targets", {"routines": [
        R([O(0, "op_a"), O(1, "End")]),
        R([O(2, "op_b"), O(3, "Hold")], type="ACTOR", linked_to=3),
        R([O(4, "op_c"), O(5, "End")], type="OBJECT", linked_to=-1, name="OBJECT_X_1"),
        R([], type="PERFORMER", linked_to=0)]}))
    # parameters a fallback has to print exactly: negative / half-tile position marks, fixed point, odd strings; the routine
    # falls back because routine 1 is only a jump into it
    shapes.append(("fallback_with_every_parameter_kind", {"routines": [
        R([O(0, "op_a", {"t": "pos", "v": ["m", 2, 0, -4, 7]}, {"t": "pos", "v": ["n", 0, 2, 3, -1]}, {"t": "pos", "v": ["o", 2, 2, -1, -1]},
             {"t": "fp", "v": "-0.5"}, {"t": "fp", "v": "12.125"}, -7, {"t": "str", "v": "it's \"q\""}, {"t": "str", "v": "a\nb"},
             {"t": "lang", "v": [["english", "e\nf"], ["german", "g"]]}, {"t": "const", "v": "$V"}),
           O(1, "End")], type="ACTOR", linked_to=-1, name="ACTOR_X"),
        R([O(2, "Jump", 0)], type="OBJECT", linked_to=5)]}))
    # a switch with six cases where the first and the fourth share a body (non-adjacent): the decompiler has to label it
    V2 = {"t": "const", "v": "$S"}
    shapes.append(("switch_shared_nonadjacent_case_body", {"routines": [R([
        O(0, "pre"), O(1, "Switch", V2), O(2, "Case", 1, 9), O(3, "Case", 2, 11), O(4, "Case", 3, 13), O(5, "Case", 4, 9), O(6, "Case", 5, 15),
        O(7, "Case", 6, 17), O(8, "Jump", 19), O(9, "body_a"), O(10, "Jump", 19), O(11, "body_b"), O(12, "Jump", 19), O(13, "body_c"),
        O(14, "Jump", 19), O(15, "body_d"), O(16, "Jump", 19), O(17, "body_e"), O(18, "Jump", 19), O(19, "after"), O(20, "End")])]}))
    # twelve routines chained by cross-routine jumps: more than nine labels and routines in the fallback text
    rs = [R([O(0, "a0"), O(1, "End")])]
    for k_ in range(1, 12):
        tgt = 2 * (((k_ + 3) % 11) + 1)  # first op of another routine (never routine 0)
        rs.append(R([O(2 * k_, f"a{k_}", k_), O(2 * k_ + 1, "Jump", tgt)], type="ACTOR" if k_ % 3 == 0 else "GENERIC", linked_to=k_ if k_ % 3 == 0 else -1))
    shapes.append(("twelve_routines_chained_by_jumps", {"routines": rs}))
    # several jumps to one op; a jump from a later routine to the FIRST op of routine 0
    shapes.append(("jumps_to_one_op_and_to_a_first_op", {"routines": [
        R([O(0, "BranchBit", V, 1, 4), O(1, "Branch", V, 1, 4), O(2, "op_a"), O(3, "Jump", 4), O(4, "op_b"), O(5, "End")]),
        R([O(6, "op_c"), O(7, "Jump", 0)], type="OBJECT", linked_to=2)]}))
    # a call into another routine (the callee returns)
    shapes.append(("call_into_another_routine", {"routines": [
        R([O(0, "Call", 4), O(1, "op_a", 2 ** 31, -(2 ** 15)), O(2, "Call", 4), O(3, "End")]),
        R([O(4, "sub_op"), O(5, "Return")], type="ACTOR", linked_to=1)]}))
    # switch-case ops whose targets a fallback has to print as labels (the second routine jumps into a case body)
    shapes.append(("case_ops_in_a_fallback", {"routines": [
        R([O(0, "Switch", V), O(1, "Case", 1, 5), O(2, "Case", 2, 7), O(3, "CaseVariable", 0, V, 7), O(4, "Jump", 9), O(5, "body_a"), O(6, "Jump", 9),
           O(7, "body_b"), O(8, "Jump", 9), O(9, "after"), O(10, "End")]),
        R([O(11, "Jump", 7)], type="PERFORMER", linked_to=0)]}))
    # self loop and nested back edges
    shapes.append(("loops", {"routines": [R([
        O(0, "op_a"), O(1, "BranchBit", V, 0, 0), O(2, "op_b"), O(3, "BranchBit", V, 1, 2), O(4, "Jump", 0)])]}))
    # case jumping backwards
    shapes.append(("case_backward", {"routines": [R([
        O(0, "op_a"), O(1, "Switch", V), O(2, "Case", 1, 0), O(3, "op_b"), O(4, "End")])]}))
    return shapes
