"""One integer decides everything: named, independent PRNG streams derived from VERIF_SEED."""
from __future__ import annotations

import hashlib
import os
import random

DEFAULT_SEED = 20260925


def master_seed() -> int:
    v = os.environ.get("VERIF_SEED", "")
    try:
        return int(v) if v.strip() else DEFAULT_SEED
    except ValueError:
        return DEFAULT_SEED


def H(*parts) -> int:
    """Stable 63-bit hash of the parts (never Python's hash(): that one depends on PYTHONHASHSEED)."""
    h = hashlib.sha256()
    for p in parts:
        h.update(repr(p).encode("utf-8"))
        h.update(b"\x00")
    return int.from_bytes(h.digest()[:8], "big") >> 1


def stream(run_seed: int, name: str) -> random.Random:
    """An independent PRNG for one concern of one run; adding draws to one never shifts another."""
    return random.Random(H(run_seed, name))


def run_seed(master: int, engine: str, index: int) -> int:
    return H(master, engine, index)


def sha(obj) -> str:
    return hashlib.sha256(repr(obj).encode("utf-8")).hexdigest()[:16]
