"""Outcome classification, replay files, known findings, evidence files (DESIGN.md 2.5, 2.6)."""
from __future__ import annotations

import json
import os
import time

from simkit.boot import VERIF_DIR

REPLAY_DIR = os.path.join(VERIF_DIR, "replays")
EVIDENCE_DIR = os.path.join(VERIF_DIR, "evidence")
FINDINGS_FILE = os.path.join(VERIF_DIR, "known_findings.json")


def load_findings(prop: str) -> list[dict]:
    try:
        with open(FINDINGS_FILE, encoding="utf-8") as f:
            doc = json.load(f)
    except FileNotFoundError:
        return []
    return [e for e in doc.get("entries", []) if e.get("property") == prop]


def match_finding(findings: list[dict], signature: dict) -> dict | None:
    """An entry with status 'finding' whose every `match` key equals the violation's signature value.
    `fixed` entries never suppress anything."""
    for e in findings:
        if e.get("status") != "finding":
            continue
        m = e.get("match", {})
        if m and all(signature.get(k) == v for k, v in m.items()):
            return e
    return None


def write_replay(prop: str, seed: int, n: int, payload: dict) -> str:
    os.makedirs(REPLAY_DIR, exist_ok=True)
    path = os.path.join(REPLAY_DIR, f"{prop}-{seed}-{n}.json")
    with open(path, "w", encoding="utf-8") as f:
        json.dump(payload, f, indent=1, ensure_ascii=False, sort_keys=True)
    return path


class Report:
    """Collects what one check run did and prints the contract lines."""

    def __init__(self, prop: str, tier: str, seed: int, level: str):
        self.prop = prop
        self.tier = tier
        self.seed = seed
        self.level = level
        self.t0 = time.time()
        self.violations: list[dict] = []
        self.known: dict[str, dict] = {}
        self.harness_errors: list[str] = []
        self.findings = load_findings(prop)
        self.coverage: dict = {}
        self.assumptions: list[str] = []
        self._n = 0

    def violation(self, signature: dict, payload: dict, what: str) -> None:
        """Report one violation (already minimised / replayed by the engine)."""
        kf = match_finding(self.findings, signature)
        if kf is not None:
            ent = self.known.setdefault(kf["id"], {"entry": kf, "count": 0})
            ent["count"] += 1
            return
        # one report per distinct signature
        for v in self.violations:
            if v["signature"] == signature:
                v["count"] += 1
                return
        self._n += 1
        payload = dict(payload)
        payload.update({"property": self.prop, "signature": signature, "what": what, "master_seed": self.seed})
        path = write_replay(self.prop, self.seed, self._n, payload)
        self.violations.append({"signature": signature, "what": what, "replay": path, "count": 1})

    def harness_error(self, msg: str) -> None:
        self.harness_errors.append(msg)

    def finish(self, coverage: dict, assumptions: list[str]) -> int:
        wall = time.time() - self.t0
        for kid, ent in sorted(self.known.items()):
            print(f"KNOWN-FINDING: property={self.prop} {kid}: {ent['entry'].get('what', '')} (seen {ent['count']}x)")
        for v in self.violations:
            print(f"VIOLATION property={self.prop} replay={v['replay']}")
            print(f"  what: {v['what']} (seen {v['count']}x)")
        for h in self.harness_errors[:10]:
            print(f"HARNESS-ERROR {self.prop}: {h.splitlines()[0][:1500] if h else h}")
        cov = dict(coverage)
        cov["known_findings_seen"] = {k: v["count"] for k, v in self.known.items()}
        cov["harness_errors"] = len(self.harness_errors)
        ev = {
            "property_id": self.prop,
            "tier": self.tier,
            "seed": self.seed,
            "level": self.level,
            "coverage": cov,
            "assumptions": assumptions,
            "wall_s": round(wall, 2),
            "violations": len(self.violations),
        }
        os.makedirs(EVIDENCE_DIR, exist_ok=True)
        tmp = os.path.join(EVIDENCE_DIR, f".{self.prop}.json.tmp")
        with open(tmp, "w", encoding="utf-8") as f:
            json.dump(ev, f, indent=1, ensure_ascii=False, sort_keys=True)
        os.replace(tmp, os.path.join(EVIDENCE_DIR, f"{self.prop}.json"))
        if self.violations:
            print(f"{self.prop}: {len(self.violations)} distinct violation(s) in {wall:.1f}s")
            return 1
        # harness errors never turn into exit 0: a check that could not run did not hold
        if self.harness_errors:
            tol = 0 if self.prop == "C10" else max(2, int(0.001 * max(1, cov.get("evaluations", 0))))
            if len(self.harness_errors) > tol:
                print(f"{self.prop}: {len(self.harness_errors)} harness errors (tolerated: {tol}) -> exit 2")
                return 2
        print(f"{self.prop}: held on everything explored ({cov.get('evaluations', 0)} evaluations, {wall:.1f}s)")
        return 0
