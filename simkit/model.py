"""Canonical, JSON-able views of what the system consumes and produces.

Routine sets (the decompiler's input / the compiler's output) are stored in replay files in this
encoding; digests are what oracles compare. Nothing here is imported from the tree under test except
the plain data classes, and the tables of jump-carrying opcodes are *frozen copies* (an oracle must
not move when the code under test moves).
"""
from __future__ import annotations

import json
from typing import Any

# opcode name -> index of the parameter that holds the jump target (frozen from ssb_special_ops)
JUMP_PARAM_INDEX = {
    "Case": 1,
    "CaseMenu": 1,
    "CaseMenu2": 1,
    "CaseScenario": 2,
    "CaseValue": 2,
    "CaseVariable": 2,
    "Jump": 0,
    "Call": 0,
    "Branch": 2,
    "BranchBit": 2,
    "BranchDebug": 1,
    "BranchEdit": 1,
    "BranchExecuteSub": 1,
    "BranchPerformance": 2,
    "BranchScenarioNow": 3,
    "BranchScenarioNowAfter": 3,
    "BranchScenarioNowBefore": 3,
    "BranchScenarioAfter": 3,
    "BranchScenarioBefore": 3,
    "BranchSum": 3,
    "BranchValue": 3,
    "BranchVariable": 3,
    "BranchVariation": 1,
}
FLOW_END = {"Jump", "JumpCommon", "Return", "End", "Hold", "Destroy"}


def _types():
    from explorerscript.ssb_converting import ssb_data_types as T

    return T


def param_to_json(p) -> Any:
    T = _types()
    if isinstance(p, bool):
        return {"t": "bool", "v": bool(p)}
    if isinstance(p, int):
        return int(p)
    if isinstance(p, T.SsbOpParamFixedPoint):
        return {"t": "fp", "v": p.value}
    if isinstance(p, T.SsbOpParamConstant):
        return {"t": "const", "v": p.name}
    if isinstance(p, T.SsbOpParamConstString):
        return {"t": "str", "v": p.name}
    if isinstance(p, T.SsbOpParamLanguageString):
        return {"t": "lang", "v": [[k, v] for k, v in p.strings.items()]}
    if isinstance(p, T.SsbOpParamPositionMarker):
        return {"t": "pos", "v": [p.name, p.x_offset, p.y_offset, p.x_relative, p.y_relative]}
    return {"t": "unknown", "v": f"{type(p).__name__}:{p!r}"}


def param_from_json(j):
    T = _types()
    if isinstance(j, int):
        return j
    t, v = j["t"], j["v"]
    if t == "fp":
        o = T.SsbOpParamFixedPoint(0, "0")
        o.value = v
        return o
    if t == "const":
        return T.SsbOpParamConstant(v)
    if t == "str":
        return T.SsbOpParamConstString(v)
    if t == "lang":
        return T.SsbOpParamLanguageString({k: s for k, s in v})
    if t == "pos":
        return T.SsbOpParamPositionMarker(v[0], v[1], v[2], v[3], v[4])
    raise ValueError(f"bad param json {j!r}")


def routines_to_json(routine_infos, named_coroutines, routine_ops) -> dict:
    """named_coroutines: list[str] (compiler style) or list[SsbCoroutine] (decompiler style)."""
    T = _types()
    names: dict[int, str] = {}
    if named_coroutines is not None:
        for i, c in enumerate(named_coroutines):
            if isinstance(c, T.SsbCoroutine):
                names[c.id] = c.name
            else:
                names[i] = c
    out = []
    for i, (info, ops) in enumerate(zip(routine_infos, routine_ops)):
        if info is None:  # a gap in the routine ids leaves holes in the compiler's tables
            out.append({"type": "<missing>", "linked_to": None, "linked_to_name": None, "coro": None, "ops": []})
            continue
        out.append(
            {
                "type": info.type.name,
                "linked_to": info.linked_to,
                "linked_to_name": info.linked_to_name,
                "coro": names.get(i) if info.type.name == "COROUTINE" else None,
                "ops": [
                    {"off": op.offset, "op": op.op_code.name, "params": [param_to_json(p) for p in op.params]}
                    for op in ops
                ],
            }
        )
    return {"routines": out}


def routines_from_json(doc: dict):
    """-> (routine_infos, named_coroutines: list[SsbCoroutine], routine_ops)"""
    T = _types()
    infos, coros, rops = [], [], []
    for i, r in enumerate(doc["routines"]):
        infos.append(T.SsbRoutineInfo(T.SsbRoutineType[r["type"]], r["linked_to"], r["linked_to_name"]))
        if r["type"] == "COROUTINE":
            coros.append(T.SsbCoroutine(i, r["coro"]))
    # the coroutine table is a mapping id -> name: its order, and entries for ids that are not routines of this set,
    # carry no meaning (a caller may pass the game's complete table)
    table = doc.get("coro_table")
    if table:
        for cid, name in table.get("extra", []):
            coros.append(T.SsbCoroutine(cid, name))
        order = table.get("order")
        if order == "reversed":
            coros.reverse()
        elif order == "by_name":
            coros.sort(key=lambda c: (c.name, c.id))
    for i, r in enumerate(doc["routines"]):
        rops.append(
            [
                T.SsbOperation(o["off"], T.SsbOpCode(-1, o["op"]), [param_from_json(p) for p in o["params"]])
                for o in r["ops"]
            ]
        )
    return infos, coros, rops


def canon(doc: dict) -> str:
    return json.dumps(doc, sort_keys=True, ensure_ascii=True, separators=(",", ":"))


def compile_digest(compiler) -> dict:
    """Everything observable of a successful ExplorerScriptSsbCompiler.compile(). A result that cannot be read (missing
    table, None where a source map belongs, tables of different lengths) is recorded as such instead of crashing the
    harness: it then differs from the reference, or equals it, like any other value."""
    try:
        d = routines_to_json(compiler.routine_infos, compiler.named_coroutines, compiler.routine_ops)
    except Exception as e:
        d = {"routines": f"<unreadable: {type(e).__name__}>"}
    try:
        d["named_coroutines"] = list(compiler.named_coroutines)
    except Exception as e:
        d["named_coroutines"] = f"<unreadable: {type(e).__name__}>"
    try:
        d["table_lengths"] = [len(compiler.routine_infos), len(compiler.named_coroutines), len(compiler.routine_ops)]
    except Exception:
        d["table_lengths"] = None
    try:
        d["source_map"] = json.loads(compiler.source_map.serialize())
    except Exception as e:
        d["source_map"] = f"<unreadable: {type(e).__name__}>"
    d["imports"] = list(getattr(compiler, "imports", []) or [])
    d["macro_resolution_order"] = list(getattr(compiler, "macro_resolution_order", []) or [])
    macros = getattr(compiler, "macros", None) or {}
    try:
        d["macros"] = sorted(
            [name, getattr(m, "included__absolute_path", None), getattr(m, "included__relative_path", None)]
            for name, m in macros.items()
        )
    except Exception as e:
        d["macros"] = f"<unreadable: {type(e).__name__}>"
    return d


def decompile_digest(text: str, source_map) -> dict:
    try:
        sm = json.loads(source_map.serialize())
    except Exception as e:
        sm = f"<unreadable: {type(e).__name__}>"
    return {"text": text if isinstance(text, str) else f"<not a str: {type(text).__name__}>", "source_map": sm}


def process_settings() -> dict:
    """Interpreter-wide settings a call could change and later calls depend on (part of every outcome digest in the
    history and schedule checks: a call must leave them as it found them, or at least always leave them the same)."""
    import os
    import sys
    import warnings

    return {
        "recursionlimit": sys.getrecursionlimit(),
        "cwd": os.getcwd(),
        # the warnings machinery is process-global: a call that saves and restores it (catch_warnings) around its own
        # work leaves it changed when two such calls overlap
        "warnings": [len(warnings.filters), getattr(warnings.showwarning, "__qualname__", type(warnings.showwarning).__name__),
                     getattr(warnings, "_showwarnmsg_impl", None) is not None],
    }


def failure_digest(exc: BaseException) -> dict:
    # exception TYPE only: wording of ANTLR messages is legitimately history-dependent (DESIGN.md section 3)
    return {"raised": type(exc).__name__}


def position_map(doc: dict) -> dict[int, int]:
    """offset -> 0-based global position, over all routines."""
    pm: dict[int, int] = {}
    if not isinstance(doc.get("routines"), list):
        return pm
    n = 0
    for r in doc["routines"]:
        for o in r["ops"]:
            pm.setdefault(o["off"], n)
            n += 1
    return pm


def structural_view(doc: dict) -> list:
    """Routine set with jump targets expressed as global positions (offset-numbering independent)."""
    if not isinstance(doc.get("routines"), list):
        return [["<unreadable routine set>", None, None, None, [[str(doc.get("routines")), [], None]]]]
    pm = position_map(doc)
    out = []
    for r in doc["routines"]:
        ops = []
        for o in r["ops"]:
            params = list(o["params"])
            ji = JUMP_PARAM_INDEX.get(o["op"])
            tgt = None
            if ji is not None and ji < len(params) and isinstance(params[ji], int):
                tgt = pm.get(params[ji], ("dangling", params[ji]))
                params = params[:ji] + params[ji + 1 :]
            ops.append([o["op"], params, tgt])
        out.append([r["type"], r["linked_to"], r["linked_to_name"], r["coro"], ops])
    return out
