"""Process boot: re-exec into a controlled interpreter, then import the whole system eagerly.

* PYTHONHASHSEED fixed, ASLR off (personality(ADDR_NO_RANDOMIZE)), no bytecode writing, faulthandler on.
* PYTHONPATH = $VERIF_REPO (default /repo): the tree under test is imported from its working tree as it is now.
* Every module of explorerscript, antlr4 and igraph is imported *before* anything forks or schedules:
  function-level imports in the repo would otherwise run under a pre-emptible thread and dead-lock the
  baton on the import lock (harness artefact, see DESIGN.md 2.2).
"""
from __future__ import annotations

import ctypes
import importlib
import os
import pkgutil
import sys

VERIF_DIR = os.path.dirname(os.path.dirname(os.path.abspath(__file__)))
ADDR_NO_RANDOMIZE = 0x0040000


_repo_dir = None


def repo_dir() -> str:
    global _repo_dir
    if _repo_dir is None:  # cached: simulated processes replace os.path.realpath
        _repo_dir = os.path.realpath(os.environ.get("VERIF_REPO", "/repo"))
    return _repo_dir


def reexec_if_needed(script: str, argv: list[str]) -> None:
    if os.environ.get("SIMKIT_BOOTED") == "1":
        return
    env = dict(os.environ)
    env["SIMKIT_BOOTED"] = "1"
    env["PYTHONHASHSEED"] = env.get("SIMKIT_HASHSEED", "0")
    env["PYTHONDONTWRITEBYTECODE"] = "1"
    env["PYTHONPATH"] = repo_dir() + os.pathsep + VERIF_DIR
    env["PYTHONUNBUFFERED"] = "1"
    env.pop("PYTHONSTARTUP", None)
    if env.get("SIMKIT_ASLR", "off") == "off":
        try:
            libc = ctypes.CDLL(None, use_errno=True)
            cur = libc.personality(0xFFFFFFFF)
            if cur != -1:
                libc.personality(cur | ADDR_NO_RANDOMIZE)
        except Exception:
            pass
    os.execve(sys.executable, [sys.executable, "-X", "faulthandler", script, *argv], env)


_imported = False


def eager_import() -> dict:
    """Import every module of the system under test. Returns a small report."""
    global _imported
    import explorerscript

    rd = repo_dir()
    es_file = os.path.realpath(explorerscript.__file__)
    if not es_file.startswith(rd + os.sep):
        raise RuntimeError(f"explorerscript resolves to {es_file}, expected under {rd}")
    if _imported:
        return {"repo": rd}
    n = 0
    failed = []
    import antlr4
    import igraph

    for pkg in (explorerscript, antlr4, igraph):
        for m in pkgutil.walk_packages(pkg.__path__, pkg.__name__ + "."):
            name = m.name
            if name.startswith("igraph.drawing") or name.startswith("igraph.app") or ".test" in name:
                continue
            try:
                importlib.import_module(name)
                n += 1
            except Exception as e:  # optional deps of igraph, never of the repo
                if name.startswith("explorerscript."):
                    raise
                failed.append(f"{name}: {type(e).__name__}")
    # things imported lazily by the standard library on paths the system takes
    import copy, json, logging, warnings, argparse, runpy, traceback, weakref, inspect  # noqa
    import encodings.utf_8, encodings.ascii, encodings.latin_1  # noqa

    _imported = True
    return {"repo": rd, "modules": n, "optional_failed": failed}
