"""simkit - a small deterministic-simulation kernel for tech-ticks/ExplorerScript.

Everything a run decides is derived from one integer (VERIF_SEED); see DESIGN.md section 2.
"""
