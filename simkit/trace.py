"""Fault points through sys.settrace: find `assert` sites, record their executions, make one fail.

The only fault C06 is about is "this consistency assertion fails now" while control is inside the
dynamic extent of the `try:` of ExplorerScriptSsbDecompiler.convert(). Sites are collected with `ast`
from the tree under test at run time, so the set follows the code.
"""
from __future__ import annotations

import ast
import os
import sys

from simkit.boot import repo_dir


def _py_files(root: str):
    for d, dirs, files in os.walk(root):
        dirs[:] = [x for x in dirs if x not in ("antlr", "__pycache__", "pygments")]
        for f in files:
            if f.endswith(".py"):
                yield os.path.join(d, f)


_sites_cache = None


def assert_sites() -> dict[str, frozenset[int]]:
    """{absolute file name: lines on which an `assert` statement starts} for hand-written repo code."""
    global _sites_cache
    if _sites_cache is not None:
        return _sites_cache
    out = {}
    root = os.path.join(repo_dir(), "explorerscript")
    for p in _py_files(root):
        try:
            tree = ast.parse(open(p, encoding="utf-8").read())
        except SyntaxError:
            continue
        lines = set()

        class V(ast.NodeVisitor):
            def visit_If(self, node):
                # skip `if TYPE_CHECKING:` bodies: never executed
                t = node.test
                if isinstance(t, ast.Name) and t.id == "TYPE_CHECKING":
                    for n in node.orelse:
                        self.visit(n)
                    return
                self.generic_visit(node)

            def visit_Assert(self, node):
                lines.add(node.lineno)

        V().visit(tree)
        if lines:
            out[os.path.realpath(p)] = frozenset(lines)
    _sites_cache = out
    return out


_extent_cache = None


def convert_try_extent() -> tuple[str, int, int]:
    """(file, first line, last line) of the body of the try: in ExplorerScriptSsbDecompiler.convert."""
    global _extent_cache
    if _extent_cache is not None:
        return _extent_cache
    p = os.path.realpath(os.path.join(repo_dir(), "explorerscript", "ssb_converting", "ssb_decompiler.py"))
    tree = ast.parse(open(p, encoding="utf-8").read())
    for node in ast.walk(tree):
        if isinstance(node, ast.ClassDef) and node.name == "ExplorerScriptSsbDecompiler":
            for fn in node.body:
                if isinstance(fn, ast.FunctionDef) and fn.name == "convert":
                    for st in ast.walk(fn):
                        if isinstance(st, ast.Try) and any(
                            _names_assertion(h.type) for h in st.handlers if h.type is not None
                        ):
                            _extent_cache = (p, st.body[0].lineno, st.body[-1].end_lineno)
                            return _extent_cache
                    # no try/except AssertionError any more: empty extent (nothing is a fault site)
                    _extent_cache = (p, 0, -1)
                    return _extent_cache
    _extent_cache = (p, 0, -1)
    return _extent_cache


def _names_assertion(t) -> bool:
    if isinstance(t, ast.Name):
        return t.id in ("AssertionError", "Exception", "BaseException")
    if isinstance(t, ast.Tuple):
        return any(_names_assertion(e) for e in t.elts)
    return False


_codes_cache = None


def _code_objects_with_sites(sites: dict[str, frozenset[int]]) -> dict:
    """{code object: frozenset(assert lines in it)} for every function of the loaded system.
    Computed once (call it before forking: children inherit the table)."""
    global _codes_cache
    if _codes_cache is not None:
        return _codes_cache
    import gc
    import types

    out = {}
    seen = set()

    def visit(code):
        if id(code) in seen:
            return
        seen.add(id(code))
        fn = code.co_filename
        lines = sites.get(fn)
        if lines is None:
            lines = sites.get(os.path.realpath(fn))
        if lines:
            own = {ln for _, _, ln in code.co_lines() if ln is not None}
            hit = lines & own
            # an assert of a nested function also lies inside the line table of no outer code object,
            # so `hit` attributes each assert to the innermost code object that really executes it
            if hit:
                out[code] = (fn if fn in sites else os.path.realpath(fn), frozenset(hit))
        for c in code.co_consts:
            if isinstance(c, types.CodeType):
                visit(c)

    for o in gc.get_objects():
        if isinstance(o, types.FunctionType):
            visit(o.__code__)
    _codes_cache = out
    return out


def prepare() -> None:
    _code_objects_with_sites(assert_sites())
    convert_try_extent()


TOOL_ID = 3


class AssertTracer:
    """Records executions of assert lines inside convert()'s try, and optionally makes the n-th
    execution of one site raise AssertionError. Built on sys.monitoring (PEP 669): LINE events are
    enabled only in code objects that contain an assert, and an exception raised by the callback
    surfaces in the monitored frame at that line, exactly like a failing assert."""

    def __init__(self, target: tuple[str, int, int] | None = None):
        self.sites = assert_sites()
        self.cfile, self.lo, self.hi = convert_try_extent()
        self.target = target  # (file, line, occurrence) with occurrence counted from 1
        self.executions: list[tuple[str, int]] = []
        self.counts: dict[tuple[str, int], int] = {}
        self.fired = False
        self.codes = _code_objects_with_sites(self.sites)
        if target is not None:
            self.codes = {c: v for c, v in self.codes.items() if v[0] == target[0] and target[1] in v[1]}

    def _in_extent(self, frame) -> bool:
        f = frame
        while f is not None:
            co = f.f_code
            if co.co_name == "convert" and (co.co_filename == self.cfile or os.path.realpath(co.co_filename) == self.cfile):
                return self.lo <= f.f_lineno <= self.hi
            f = f.f_back
        return False

    def _cb(self, code, line):
        ent = self.codes.get(code)
        if ent is None or line not in ent[1]:
            return sys.monitoring.DISABLE
        if not self._in_extent(sys._getframe(1)):
            return None
        key = (ent[0], line)
        n = self.counts.get(key, 0) + 1
        self.counts[key] = n
        if self.target is None:
            self.executions.append(key)
        elif not self.fired and line == self.target[1] and n == self.target[2]:
            self.fired = True
            # the message is what assertion messages of the tree look like at their worst: they embed reprs of ops and
            # parameters, i.e. line breaks, quotes of every kind and comment delimiters
            raise AssertionError("simkit: injected assertion failure\nsecond line: 'q' \"d\" \'\'\' */ /* // \\ {x} %s\r\n\u2028end")
        return None

    def run(self, fn, *a, **kw):
        mon = sys.monitoring
        mon.use_tool_id(TOOL_ID, "simkit-assert")
        try:
            mon.register_callback(TOOL_ID, mon.events.LINE, self._cb)
            for code in self.codes:
                mon.set_local_events(TOOL_ID, code, mon.events.LINE)
            return fn(*a, **kw)
        finally:
            for code in self.codes:
                mon.set_local_events(TOOL_ID, code, 0)
            mon.register_callback(TOOL_ID, mon.events.LINE, None)
            mon.free_tool_id(TOOL_ID)


def rel(path: str) -> str:
    rd = repo_dir()
    return os.path.relpath(path, rd) if path.startswith(rd) else path


# ---- generic crash points (C11): the n-th line event / the n-th return of a state-writing function ----

_all_codes_cache = None


def all_repo_codes() -> dict:
    """{code object: relative file} for every function of hand-written repo code (no generated parsers)."""
    global _all_codes_cache
    if _all_codes_cache is not None:
        return _all_codes_cache
    import gc
    import types

    root = os.path.join(repo_dir(), "explorerscript") + os.sep
    skip = os.path.join(root, "antlr") + os.sep
    out = {}
    seen = set()

    def visit(code):
        if id(code) in seen:
            return
        seen.add(id(code))
        fn = code.co_filename
        if fn.startswith(root) and not fn.startswith(skip):
            out[code] = fn[len(root):]
        for c in code.co_consts:
            if isinstance(c, types.CodeType):
                visit(c)

    for o in gc.get_objects():
        if isinstance(o, types.FunctionType):
            visit(o.__code__)
    _all_codes_cache = out
    return out


STATE_WRITERS = {
    "find_first_common_next_vertex_in_edges", "find_first_common_next_vertex_in_edges__clear_cache",
    "_macros_add_filenames", "add_opcode", "add_macro_opcode", "add_position_mark", "macro_context__push",
    "macro_context__pop", "next_macro_opcode_called_in", "read_ops", "_single_param_to_string", "write_content",
}

TOOL_CRASH = 4

_with_lines_cache = None


def with_lines() -> dict[str, frozenset[int]]:
    """{file: first lines of `with` statements}. CPython attributes the implicit __exit__ call of a normal
    block exit to the `with` line, *outside* the protected range: an exception raised on that line event
    skips __exit__ (the interpreter-level race of bpo-29988, which no Python code can defend against).
    Such lines are therefore never crash points; a fault just before entering the block is the same fault
    as one at the end of the previous line."""
    global _with_lines_cache
    if _with_lines_cache is None:
        out = {}
        root = os.path.join(repo_dir(), "explorerscript")
        for p in _py_files(root):
            try:
                tree = ast.parse(open(p, encoding="utf-8").read())
            except SyntaxError:
                continue
            lines = {n.lineno for n in ast.walk(tree) if isinstance(n, (ast.With, ast.AsyncWith))}
            if lines:
                out[p] = frozenset(lines)
        _with_lines_cache = out
    return _with_lines_cache


_current_crash_point = None


class observation:
    """`with trace.observation():` - the harness looks at a result (serialises a source map, reads attributes). Code of
    the tree under test that runs for that is not part of the call under observation: an armed crash point neither
    counts nor fires there (a fault injected into the harness's own reading would be recorded as the call's result)."""

    def __enter__(self):
        self.cp = _current_crash_point
        if self.cp is not None:
            self.old = self.cp.paused
            self.cp.paused = True
        return self

    def __exit__(self, *a):
        if self.cp is not None:
            self.cp.paused = self.old
        return False


class CrashPoint:
    """Counts events while fn runs and raises `exc` at the n-th one.

    kind 'line'   : n-th LINE event in hand-written repo code
    kind 'assert' : n-th execution of an `assert` line anywhere in repo code
    kind 'return' : n-th return of one of the named state-writing functions (so that the fault lands
                    between a write and its clean-up rather than uniformly)
    n = 0 only counts (dry run).
    """

    def __init__(self, kind: str, n: int, exc):
        self.kind, self.n, self.exc = kind, n, exc
        self.count = 0
        self.fired = False
        self.fired_at = None
        self.paused = False
        codes = all_repo_codes()
        if kind == "assert":
            sites = _code_objects_with_sites(assert_sites())
            self.codes = {c: v[1] for c, v in sites.items()}
        elif kind == "return":
            self.codes = {c: None for c in codes if c.co_name in STATE_WRITERS}
        else:
            self.codes = {c: None for c in codes}
        self.withs = with_lines()

    def _line(self, code, line):
        lines = self.codes.get(code, False)
        if lines is False:
            return sys.monitoring.DISABLE
        if lines is not None and line not in lines:
            return sys.monitoring.DISABLE
        w = self.withs.get(code.co_filename)
        if w is not None and line in w:
            return sys.monitoring.DISABLE
        if self.paused:
            return None
        self.count += 1
        if not self.fired and self.count == self.n:
            self.fired = True
            self.fired_at = f"{all_repo_codes().get(code, code.co_filename)}:{code.co_name}:{line}"
            raise self.exc
        return None

    def _ret(self, code, offset, retval):
        if code not in self.codes:
            return sys.monitoring.DISABLE
        if self.paused:
            return None
        self.count += 1
        if not self.fired and self.count == self.n:
            self.fired = True
            self.fired_at = f"{all_repo_codes().get(code, code.co_filename)}:{code.co_name}:return"
            raise self.exc
        return None

    def run(self, fn, *a, **kw):
        global _current_crash_point
        mon = sys.monitoring
        mon.use_tool_id(TOOL_CRASH, "simkit-crash")
        ev = mon.events.PY_RETURN if self.kind == "return" else mon.events.LINE
        _current_crash_point = self
        try:
            mon.register_callback(TOOL_CRASH, ev, self._ret if self.kind == "return" else self._line)
            for code in self.codes:
                mon.set_local_events(TOOL_CRASH, code, ev)
            return fn(*a, **kw)
        finally:
            _current_crash_point = None
            for code in self.codes:
                mon.set_local_events(TOOL_CRASH, code, 0)
            mon.register_callback(TOOL_CRASH, ev, None)
            mon.free_tool_id(TOOL_CRASH)
