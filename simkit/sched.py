"""Baton-passing scheduler for real threads (DESIGN.md 2.3, 5.2).

Exactly one simulated thread runs at any time; every other one is parked on its own semaphore. The
points at which the baton may change hands are sys.monitoring events:
    LINE         in hand-written repo code,
    PY_START     (function entry) in the antlr4 runtime and the generated parsers,
    INSTRUCTION  (every bytecode) inside the functions that touch shared state.
Who runs next is decided by a seeded strategy, or read from an explicit switch list when replaying.
Real locks reachable from repo namespaces are replaced by SimLock, which yields to the scheduler
instead of blocking the only running thread.
"""
from __future__ import annotations

import os
import sys
import threading
import types

from simkit.boot import repo_dir

TOOL = 2

SHARED_STATE_FUNCS = {
    # repo
    "find_first_common_next_vertex_in_edges", "find_first_common_next_vertex_in_edges__clear_cache",
    # antlr4 runtime
    "addDFAState", "addDFAEdge", "computeTargetState", "getExistingTargetState", "add", "getCachedContext",
    "setPrecedenceDfa", "setPrecedenceStartState", "getPrecedenceStartState", "captureSimState", "addDFAContext",
    "adaptivePredict", "execATN", "computeStartState", "get", "optimizeConfigs",
}
SHARED_STATE_FILES = ("graph_utils.py", "ParserATNSimulator.py", "LexerATNSimulator.py", "PredictionContext.py", "DFA.py", "ATNConfigSet.py")


class Deadlock(Exception):
    pass


class StepCapExceeded(Exception):
    pass


class SimThread:
    def __init__(self, idx: int, fn, sched):
        self.idx = idx
        self.fn = fn
        self.sched = sched
        self.sem = threading.Semaphore(0)
        self.done = False
        self.blocked_on = None
        self.result = None
        self.error = None
        self.events = 0
        self.started = False
        self.thread = threading.Thread(target=self._main, name=f"sim-{idx}", daemon=True)
        self.ident = None

    def _main(self):
        self.ident = threading.get_ident()
        self.sched.by_ident[self.ident] = self
        self.sem.acquire()  # wait for the baton
        try:
            self.result = self.fn()
        except BaseException as e:  # noqa
            self.error = e
        finally:
            self.done = True
            self.sched._thread_finished(self)


class SimLock:
    """Drop-in for threading.Lock inside the simulation."""

    def __init__(self, sched, name="lock", reentrant=False):
        self.sched = sched
        self.name = name
        self.reentrant = reentrant
        self.depth = 0
        self.owner = None
        self.waiters: list = []
        self.acquisitions = 0
        self.contended = 0

    def acquire(self, blocking=True, timeout=-1):
        s = self.sched
        me = s.current_sim()
        if me is None:  # not a simulated thread (driver before/after the run)
            self.owner = "driver"
            return True
        s.shared_point(me, ("lock-acquire", self.name, 0))
        if self.owner is me:
            if self.reentrant:
                self.depth += 1
                return True
            # a plain Lock taken again by the thread that holds it never comes back
            s._fail(Deadlock(f"thread {me.idx} acquires the non-reentrant lock {self.name} which it already holds"))
        while self.owner is not None and self.owner is not me:
            if not blocking:
                return False
            self.contended += 1
            s.probes["lock_contended"] = s.probes.get("lock_contended", 0) + 1
            me.blocked_on = self
            self.waiters.append(me)
            s.block_current(me)
            # woken up: try again
        me.blocked_on = None
        self.owner = me
        self.depth = 1
        self.acquisitions += 1
        # holding a lock is where lock-order inversions and lost updates need the other thread to run
        s.after_acquire(me, self)
        return True

    def release(self):
        s = self.sched
        if self.reentrant and self.depth > 1:
            self.depth -= 1
            return
        self.depth = 0
        self.owner = None
        if self.waiters:
            # hand-off order is a scheduler decision
            w = s.choose_waiter(self.waiters)
            self.waiters.remove(w)
            w.blocked_on = None
        me = s.current_sim()
        if me is not None:
            s.shared_point(me, ("lock-release", self.name, 0))

    def locked(self):
        return self.owner is not None

    def __enter__(self):
        self.acquire()
        return self

    def __exit__(self, *a):
        self.release()
        return False


class Scheduler:
    def __init__(self, rng, strategy: dict, replay_switches=None, step_cap: int = 50_000_000):
        self.rng = rng
        self.strategy = strategy
        self.threads: list[SimThread] = []
        self.by_ident: dict = {}
        self.current: SimThread | None = None
        self.total_events = 0
        self.step_cap = step_cap
        self.switches: list = []  # (event index, from, to, site kind)
        self.replay = list(replay_switches) if replay_switches is not None else None
        self._replay_pos = 0
        self.driver_sem = threading.Semaphore(0)
        self.failure = None
        self.probes: dict = {}
        self.site_trace: list = []  # (thread, site) at shared sites, for the interleaving fingerprint
        self.site_files: set = set()  # files whose shared-state sites this run reached
        self.site_lines: set = set()  # (file, line) of the shared-looking lines this run reached
        self.max_switches = strategy.get("max_switches", 5000)
        self._next_switch = self._draw_gap()
        self._prio = None
        self._change_points = []
        if strategy["kind"] == "pct":
            self._prio = {}
        self._in_callback = False
        self._shared_lines = shared_lines()
        self.gc_points: list[int] = sorted(strategy.get("gc_points", []))
        self.codes_line: set = set()
        self.codes_entry: set = set()
        self.codes_instr: set = set()

    # ---- set-up ---------------------------------------------------------------------------------------
    def spawn(self, fn) -> SimThread:
        t = SimThread(len(self.threads), fn, self)
        self.threads.append(t)
        return t

    def current_sim(self):
        return self.by_ident.get(threading.get_ident())

    def _draw_gap(self) -> int:
        st = self.strategy
        if st["kind"] == "random":
            mean = st["mean_gap"]
            # geometric
            import math

            u = self.rng.random()
            return max(1, int(math.log(1 - u) / math.log(1 - 1.0 / mean))) if mean > 1 else 1
        return 1 << 60

    # ---- the points -----------------------------------------------------------------------------------
    def point(self, me: SimThread, entry: bool = False):
        """An ordinary pre-emption point (line of repo code / function entry in the parser runtime)."""
        self.total_events += 1
        me.events += 1
        if self.total_events > self.step_cap:
            self._fail(StepCapExceeded(f"{self.total_events} events"))
        if self.gc_points and self.total_events >= self.gc_points[0]:
            self.gc_points.pop(0)
            import gc

            gc.collect()
            self.probes["gc_events"] = self.probes.get("gc_events", 0) + 1
        if self.replay is not None:
            self._replay_point(me, "point")
            return
        st = self.strategy
        k = st["kind"]
        if k == "random":
            self._next_switch -= 1
            if self._next_switch <= 0:
                self._next_switch = self._draw_gap()
                self._switch_random(me, "point")
        elif k == "pct":
            self._pct_point(me)
        elif k == "skew":
            self._skew_point(me)
        elif k == "rendezvous":
            if self._burst_left > 0:
                # two threads have just met at shared state: let them also cut into each other's private stretches
                if self.total_events > self._burst_until:
                    self._burst_left = 0
                elif self.rng.random() < st.get("burst_point_p", 0.001):
                    self._switch_random(me, "burst-point")
            if self._parked is not None:
                pt, _, since = self._parked
                if pt is me:
                    self._parked = None
                elif self.total_events - since > st.get("patience", 300000) and not pt.done and pt.blocked_on is None:
                    self._parked = None
                    self._switch_to(me, pt, "patience")
        elif k == "repo":
            # hand-written repo code is where newly shared state would live: switch often there, rarely inside the
            # parser runtime, so that threads that reach repo code at different times still meet in it
            if self.rng.random() < (st["p_entry"] if entry else st["p_line"]):
                self._switch_random(me, "point")
        # site-biased strategies only act at shared points

    def shared_point(self, me: SimThread, site):
        """A point inside a function that touches shared state (bytecode granularity) or a lock operation."""
        self.total_events += 1
        me.events += 1
        if len(self.site_trace) < 20000:
            self.site_trace.append((me.idx, site[0] if isinstance(site, tuple) else site))
        if isinstance(site, tuple) and len(site) > 2 and isinstance(site[1], str):
            self.site_files.add(site[1])
            if site[0] == "line":
                self.site_lines.add((site[1], site[2]))
        if self.replay is not None:
            self._replay_point(me, "shared")
            return
        st = self.strategy
        k = st["kind"]
        if k == "site":
            p = st["p"]
            if self._burst_left > 0:
                self._burst_left -= 1
                p = 0.5
            elif self.rng.random() < st.get("burst_rate", 0.0):
                self._burst_left = st.get("burst_len", 8)
            if self.rng.random() < p:
                self._switch_random(me, "shared")
        elif k == "random":
            self._next_switch -= 1
            if self._next_switch <= 0:
                self._next_switch = self._draw_gap()
                self._switch_random(me, "shared")
        elif k == "pct":
            self._pct_point(me)
        elif k == "skew":
            self._skew_point(me)
        elif k == "repo":
            if self.rng.random() < st["p_line"]:
                self._switch_random(me, "shared")
        elif k == "rendezvous":
            self._rendezvous_point(me, site)

    _burst_left = 0
    _burst_until = 0
    _parked = None

    def _rendezvous_point(self, me, site):
        """Active-testing style: park a thread at a shared-state site until another thread arrives at a site of the same
        group (same file / same lock), then interleave the two finely for a burst of shared points."""
        st = self.strategy
        grp = site[1] if isinstance(site, tuple) and len(site) > 1 else site
        focus = st.get("focus")
        if focus is not None and grp != focus:
            return  # this run concentrates on one group of shared-state sites
        if self._parked is not None and self._parked[0] is me:
            self._parked = None  # we are running again: no longer parked
        if self._burst_left > 0:
            self._burst_left -= 1
            if self.rng.random() < 0.5:
                self._switch_random(me, "burst")
            return
        if self._parked is None:
            if len(self.switches) < self.max_switches and self.rng.random() < st["q"] and self._runnable(exclude=me):
                self._parked = (me, grp, self.total_events)
                self.probes["parked"] = self.probes.get("parked", 0) + 1
                self._switch_random(me, "park")
            return
        pt, pgrp, since = self._parked
        if pt is not me and grp == pgrp and not pt.done and pt.blocked_on is None:
            self._parked = None
            self._burst_left = st.get("burst_len", 16)
            self._burst_until = self.total_events + st.get("burst_events", 200000)
            self.probes["rendezvous"] = self.probes.get("rendezvous", 0) + 1
            if self.rng.random() < 0.7:
                self._switch_to(me, pt, "rendezvous")


    def after_acquire(self, me: SimThread, lock):
        if self.replay is not None:
            self.total_events += 1
            self._replay_point(me, "lock")
            return
        p = self.strategy.get("p_after_acquire", 0.0)
        self.total_events += 1
        if p and self.rng.random() < p:
            self.probes["switch_while_holding_lock"] = self.probes.get("switch_while_holding_lock", 0) + 1
            self._switch_random(me, "lock")

    def _runnable(self, exclude=None):
        return [t for t in self.threads if not t.done and t.blocked_on is None and t is not exclude and t.started]

    def _switch_random(self, me, kind):
        if len(self.switches) >= self.max_switches:
            return
        others = self._runnable(exclude=me)
        if not others:
            return
        self._switch_to(me, self.rng.choice(others), kind)

    def _pct_point(self, me):
        if self._change_points and self.total_events >= self._change_points[0]:
            self._change_points.pop(0)
            self._prio[me.idx] = min(self._prio.values()) - 1
        best = max(self._runnable(), key=lambda t: self._prio[t.idx], default=None)
        if best is not None and best is not me:
            self._switch_to(me, best, "pct")

    def _skew_point(self, me):
        st = self.strategy
        if me.idx == 0 and not st.get("_released") and me.events >= st["release_at"]:
            st["_released"] = True
            # from now on behave like random pre-emption with the given gap
            self.strategy = {"kind": "random", "mean_gap": st.get("then_gap", 300), "max_switches": self.max_switches}
            self._next_switch = self._draw_gap()
            self._switch_random(me, "skew")

    def _replay_point(self, me, kind):
        if self._replay_pos < len(self.replay) and self.replay[self._replay_pos][0] == self.total_events:
            _, frm, to = self.replay[self._replay_pos][:3]
            self._replay_pos += 1
            tgt = self.threads[to]
            if not tgt.done and tgt.blocked_on is None and tgt is not me:
                self._switch_to(me, tgt, kind)

    def _switch_to(self, me: SimThread, to: SimThread, kind: str):
        self.switches.append((self.total_events, me.idx, to.idx, kind))
        self.current = to
        to.sem.release()
        me.sem.acquire()
        if self.failure is not None:
            raise SystemExit  # unwind quietly; the driver reports the failure

    def block_current(self, me: SimThread):
        """`me` cannot continue (waits for a SimLock): somebody else must run."""
        others = self._runnable(exclude=me)
        if not others:
            self._fail(Deadlock(f"thread {me.idx} waits for {me.blocked_on.name} held by "
                                f"{getattr(me.blocked_on.owner, 'idx', me.blocked_on.owner)}; nobody is runnable"))
        to = self._pick_forced(others)
        self._switch_to(me, to, "blocked")

    def choose_waiter(self, waiters):
        if self.replay is not None:
            return min(waiters, key=lambda t: t.idx)
        return self.rng.choice(sorted(waiters, key=lambda t: t.idx))

    def _pick_forced(self, others):
        if self.replay is not None:
            return min(others, key=lambda t: t.idx)
        if self._prio is not None:
            return max(others, key=lambda t: self._prio[t.idx])
        return self.rng.choice(sorted(others, key=lambda t: t.idx))

    def _thread_finished(self, me: SimThread):
        others = [t for t in self.threads if not t.done and t.blocked_on is None and t.started]
        if others:
            to = self._pick_forced(others)
            self.switches.append((self.total_events, me.idx, to.idx, "exit"))
            self.current = to
            to.sem.release()
            return
        if any(not t.done for t in self.threads if t.started):
            self.failure = self.failure or Deadlock("all remaining threads are blocked")
        self.driver_sem.release()

    def _fail(self, exc):
        if self.failure is None:
            self.failure = exc
        self.driver_sem.release()
        # park this thread for ever (daemon); the driver tears the process down
        threading.Semaphore(0).acquire()

    # ---- monitoring -----------------------------------------------------------------------------------
    def _cb_line(self, code, line):
        me = self.by_ident.get(threading.get_ident())
        if me is None or me is not self.current:
            return None
        sl = self._shared_lines.get(code.co_filename)
        if sl is not None and line in sl:
            self.probes["shared_line_events"] = self.probes.get("shared_line_events", 0) + 1
            self.shared_point(me, ("line", code.co_filename, line))
        else:
            self.point(me)
        return None

    def _cb_start(self, code, offset):
        me = self.by_ident.get(threading.get_ident())
        if me is None or me is not self.current:
            return None
        self.point(me, True)
        return None

    def _cb_instr(self, code, offset):
        me = self.by_ident.get(threading.get_ident())
        if me is None or me is not self.current:
            return None
        self.shared_point(me, (code.co_name, code.co_filename, offset))
        return None

    def install(self, codes_line, codes_entry, codes_instr):
        mon = sys.monitoring
        mon.use_tool_id(TOOL, "simkit-sched")
        E = mon.events
        mon.register_callback(TOOL, E.LINE, self._cb_line)
        mon.register_callback(TOOL, E.PY_START, self._cb_start)
        mon.register_callback(TOOL, E.INSTRUCTION, self._cb_instr)
        for c in codes_line:
            mon.set_local_events(TOOL, c, E.LINE)
        for c in codes_entry:
            mon.set_local_events(TOOL, c, E.PY_START)
        for c in codes_instr:
            mon.set_local_events(TOOL, c, E.INSTRUCTION)
        self._installed = (codes_line, codes_entry, codes_instr)

    def uninstall(self):
        mon = sys.monitoring
        for group in self._installed:
            for c in group:
                mon.set_local_events(TOOL, c, 0)
        for ev in (mon.events.LINE, mon.events.PY_START, mon.events.INSTRUCTION):
            mon.register_callback(TOOL, ev, None)
        mon.free_tool_id(TOOL)

    # ---- run ------------------------------------------------------------------------------------------
    def run(self, start_order=None, timeout: float = 120.0):
        """Start all threads, hand the baton to the first, wait until everything finished or failed."""
        for t in self.threads:
            t.started = True
            t.thread.start()
        # wait until every thread has registered itself
        import time

        t0 = time.monotonic()
        while len(self.by_ident) < len(self.threads):
            time.sleep(0.0005)
            if time.monotonic() - t0 > 10:
                raise RuntimeError("threads did not start")
        if self._prio is not None:
            order = list(range(len(self.threads)))
            self.rng.shuffle(order)
            self._prio = {i: len(order) - k for k, i in enumerate(order)}
            first = max(self.threads, key=lambda t: self._prio[t.idx])
            est = self.strategy.get("est_events", 100000)
            self._change_points = sorted(self.rng.randrange(1, max(2, est)) for _ in range(self.strategy.get("d", 2)))
        else:
            first = self.threads[0] if self.replay is not None else self.rng.choice(self.threads)
            if self.strategy["kind"] == "skew":
                first = self.threads[0]
        self.current = first
        self.first = first.idx
        first.sem.release()
        ok = self.driver_sem.acquire(timeout=timeout)
        if not ok:
            self.failure = self.failure or TimeoutError("simulation wall timeout")
        return self.failure


_shared_lines_cache = None


PROCESS_STATE_CALLS = {("os", "chdir"), ("os", "putenv"), ("os", "unsetenv"), ("os", "umask"), ("sys", "setrecursionlimit"), ("sys", "setswitchinterval"),
                       ("locale", "setlocale"), ("warnings", "simplefilter"), ("warnings", "filterwarnings"), ("warnings", "catch_warnings"),
                       ("warnings", "resetwarnings"), ("logging", "disable"), ("signal", "signal"), ("gc", "disable"), ("gc", "enable"),
                       ("sys", "settrace"), ("sys", "setprofile"), ("threading", "settrace")}


def shared_lines() -> dict:
    """{file: frozenset(lines)} of hand-written repo code that visibly touches state shared between calls: a class
    attribute reached through the class (`cls.x`, `SomeClass.x`, `self.__class__.x`), a name declared `global`, a
    module-level name (subscript / attribute / call / store on it inside a function), or `self.<name>` where <name> is a
    class-level attribute initialised with a mutable value. Computed from the tree under test, so that state a change
    newly shares becomes a preferred switch point without anybody naming it."""
    global _shared_lines_cache
    if _shared_lines_cache is not None:
        return _shared_lines_cache
    import ast

    root = os.path.join(repo_dir(), "explorerscript")
    files = []
    for d, dirs, fs in os.walk(root):
        dirs[:] = [x for x in dirs if x not in ("antlr", "__pycache__", "pygments")]
        files += [os.path.join(d, f) for f in fs if f.endswith(".py")]
    trees = {}
    class_names = set()
    for f in files:
        try:
            trees[f] = ast.parse(open(f, encoding="utf-8").read())
        except SyntaxError:
            continue
        for n in ast.walk(trees[f]):
            if isinstance(n, ast.ClassDef):
                class_names.add(n.name)
    MUT = (ast.List, ast.Dict, ast.Set, ast.ListComp, ast.DictComp, ast.SetComp, ast.Call, ast.Constant)
    out = {}
    for f, tree in trees.items():
        lines = set()
        mod_names = set()
        mutated = set()
        for n in ast.walk(tree):
            if isinstance(n, ast.Call) and isinstance(n.func, ast.Attribute) and isinstance(n.func.value, ast.Name) and n.func.attr in (
                    "append", "extend", "insert", "pop", "remove", "clear", "update", "setdefault", "add", "discard", "sort", "reverse", "popitem", "appendleft"):
                mutated.add(n.func.value.id)
            elif isinstance(n, ast.Subscript) and isinstance(n.ctx, (ast.Store, ast.Del)) and isinstance(n.value, ast.Name):
                mutated.add(n.value.id)
            elif isinstance(n, ast.AugAssign) and isinstance(n.target, ast.Name):
                mutated.add(n.target.id)
        for st in tree.body:
            tg = []
            if isinstance(st, ast.Assign):
                tg = st.targets
                val = st.value
            elif isinstance(st, ast.AnnAssign) and st.value is not None:
                tg = [st.target]
                val = st.value
            else:
                continue
            if isinstance(val, MUT) and not (isinstance(val, ast.Constant) and isinstance(val.value, (str, int, float, bytes, bool)) and val.value is not None and not isinstance(val.value, bool)):
                for t in tg:
                    # names written like constants count only if the file mutates them somewhere (a table filled on demand)
                    if isinstance(t, ast.Name) and (not t.id.isupper() or t.id in mutated) and t.id not in ("logger",):
                        mod_names.add(t.id)
        class_mut_attrs = {}
        for cls in [n for n in ast.walk(tree) if isinstance(n, ast.ClassDef)]:
            names = set()
            for st in cls.body:
                if isinstance(st, ast.Assign) and isinstance(st.value, (ast.List, ast.Dict, ast.Set, ast.Call)):
                    names |= {t.id for t in st.targets if isinstance(t, ast.Name)}
                elif isinstance(st, ast.AnnAssign) and st.value is not None and isinstance(st.value, (ast.List, ast.Dict, ast.Set, ast.Call)) and isinstance(st.target, ast.Name):
                    names.add(st.target.id)
            class_mut_attrs[cls] = names
        for fn in [n for n in ast.walk(tree) if isinstance(n, (ast.FunctionDef, ast.AsyncFunctionDef))]:
            globs = set()
            for n in ast.walk(fn):
                if isinstance(n, ast.Global):
                    globs |= set(n.names)
            owner_attrs = set()
            for cls, names in class_mut_attrs.items():
                if fn in cls.body:
                    owner_attrs = names
            for n in ast.walk(fn):
                if isinstance(n, ast.Attribute):
                    v = n.value
                    if isinstance(v, ast.Name) and (v.id == "cls" or v.id in class_names) and not n.attr.isupper():
                        # ClassName.method(...) calls and enum members are not state
                        if not (v.id in class_names and (n.attr[:1].isupper() or n.attr.startswith("create_") or n.attr.startswith("from_"))):
                            lines.add(n.lineno)
                    elif isinstance(v, ast.Attribute) and v.attr == "__class__":
                        lines.add(n.lineno)
                    elif isinstance(v, ast.Name) and v.id == "self" and n.attr in owner_attrs:
                        lines.add(n.lineno)
                elif isinstance(n, ast.Name) and (n.id in globs or n.id in mod_names):
                    lines.add(n.lineno)
                elif isinstance(n, ast.Call) and isinstance(n.func, ast.Attribute) and isinstance(n.func.value, ast.Name):
                    # state of the PROCESS changed through the standard library: working directory, environment, recursion
                    # limit, locale, warnings filters, logging switches, umask, signal handlers
                    if (n.func.value.id, n.func.attr) in PROCESS_STATE_CALLS:
                        lines.add(n.lineno)
        if lines:
            out[f] = frozenset(lines)
    _shared_lines_cache = out
    return out


def shared_line_texts() -> dict:
    """{file relative to the repo: sorted list of the stripped source texts of its shared-looking lines}"""
    out = {}
    rd = repo_dir()
    for f, lines in shared_lines().items():
        try:
            src = open(f, encoding="utf-8").read().splitlines()
        except OSError:
            continue
        out[os.path.relpath(f, rd)] = sorted({src[ln - 1].strip() for ln in lines if 0 < ln <= len(src)})
    return out


def novel_groups() -> list:
    """Files that touch shared state in a way the pinned tree did not (compared by line text with the committed baseline
    simkit/shared_lines_baseline.json): state that a change has newly shared. Only used to give such groups a larger
    share of the rendezvous runs - never to decide anything."""
    import json

    base_file = os.path.join(os.path.dirname(os.path.abspath(__file__)), "shared_lines_baseline.json")
    try:
        base = json.load(open(base_file))
    except (OSError, ValueError):
        return []
    rd = repo_dir()
    out = []
    for rel, texts in shared_line_texts().items():
        known = set(base.get(rel, []))
        if any(t not in known for t in texts):
            out.append(os.path.join(rd, rel))
    return sorted(out)


_code_groups_cache = None


def code_groups():
    """(line-granularity codes, entry-granularity codes, instruction-granularity codes)"""
    global _code_groups_cache
    if _code_groups_cache is not None:
        return _code_groups_cache
    import gc
    import antlr4

    root = os.path.join(repo_dir(), "explorerscript") + os.sep
    gen = os.path.join(root, "antlr") + os.sep
    antlr_root = os.path.dirname(antlr4.__file__) + os.sep
    line, entry, instr = set(), set(), set()
    seen = set()

    def visit(code):
        if id(code) in seen:
            return
        seen.add(id(code))
        fn = code.co_filename
        base = os.path.basename(fn)
        if code.co_name != "<module>":
            if (fn.startswith(root) or fn.startswith(antlr_root)) and code.co_name in SHARED_STATE_FUNCS and base in SHARED_STATE_FILES:
                instr.add(code)
            elif fn.startswith(gen) or fn.startswith(antlr_root):
                entry.add(code)
            elif fn.startswith(root):
                line.add(code)
        for c in code.co_consts:
            if isinstance(c, types.CodeType):
                visit(c)

    for o in gc.get_objects():
        if isinstance(o, types.FunctionType):
            visit(o.__code__)
    _code_groups_cache = (line, entry, instr)
    return _code_groups_cache


def patch_locks(sched: Scheduler) -> list:
    """Replace every real lock reachable as a module global / class attribute under explorerscript.* by a SimLock.
    All bindings of one real lock (a module that imported it by name) get the SAME SimLock."""
    replaced = []
    lock_types = (type(threading.Lock()), type(threading.RLock()))
    rlock_type = type(threading.RLock())
    by_real: dict = {}

    def sim_for(real, label):
        sl = by_real.get(id(real))
        if sl is None:
            sl = SimLock(sched, label, reentrant=isinstance(real, rlock_type))
            by_real[id(real)] = (sl, real)  # keep the real lock alive: its id must stay unique
            replaced.append(label)
            return sl
        return sl[0]

    for name, mod in sorted(sys.modules.items()):
        if not name.startswith("explorerscript") or mod is None:
            continue
        for attr, val in list(vars(mod).items()):
            if isinstance(val, lock_types):
                setattr(mod, attr, sim_for(val, f"{name}.{attr}"))
            elif isinstance(val, type) and val.__module__ == name:
                for a2, v2 in list(vars(val).items()):
                    if isinstance(v2, lock_types):
                        setattr(val, a2, sim_for(v2, f"{name}.{val.__name__}.{a2}"))
    return replaced
