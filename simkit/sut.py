"""Thin drivers of the system under test (real code): compile, decompile, SsbScript pair.

Every function here returns JSON-able outcomes: {"ok": digest} or {"raised": type, "msg":…, "where":…}.
"""
from __future__ import annotations

import logging
import traceback

from simkit import model

PPL = "$PERFORMANCE_PROGRESS_LIST"
DMC = ("DMODE_CLOSED", "DMODE_OPEN", "DMODE_REQUEST", "OPEN_AND_REQUEST")
MARKER = "//?: is-ssb-script: true"


class MemoryLogHandler(logging.Handler):
    """Repo logging goes here: records are stored unformatted (no repo __str__ under a logging lock)."""

    def __init__(self):
        super().__init__(level=logging.DEBUG)
        self.records = 0

    def emit(self, record):
        self.records += 1

    def createLock(self):
        self.lock = None

    def acquire(self):
        pass

    def release(self):
        pass


_handler = None


# graph_minimizer sets the process-wide recursion limit to 10000 at import. Some compiler-produced routine sets send
# the decompiler's writers into unbounded mutual recursion (if_start -> block -> label_jump -> if_start ...) whose
# cost per level grows, so that the RecursionError - which convert() turns into the SsbScript fallback - arrives only
# after minutes. That is a pure-function pathology outside the claimed properties; simulated processes therefore run
# with a lower limit (an environment setting, identical for references and runs), far above what the generated
# inputs (nesting <= 4) legitimately need.
SIM_RECURSION_LIMIT = 1500


def quiet_logging(level=logging.WARNING):
    global _handler
    import sys

    sys.setrecursionlimit(SIM_RECURSION_LIMIT)
    root = logging.getLogger()
    if _handler is None:
        _handler = MemoryLogHandler()
        for h in list(root.handlers):
            root.removeHandler(h)
        root.addHandler(_handler)
    root.setLevel(level)
    logging.getLogger("explorerscript").setLevel(level)
    logging.captureWarnings(False)
    import warnings

    warnings.simplefilter("ignore")
    return _handler


def where_of(exc: BaseException) -> str:
    """innermost repo frame of the traceback: 'file.py:function' (no line numbers: stable under edits)."""
    tb = traceback.extract_tb(exc.__traceback__)
    for fr in reversed(tb):
        if "/explorerscript/" in fr.filename:
            return f"{fr.filename.split('/explorerscript/', 1)[1]}:{fr.name}"
    if tb:
        return f"{tb[-1].filename.rsplit('/', 1)[-1]}:{tb[-1].name}"
    return "?"


def raised(exc: BaseException) -> dict:
    return {"raised": type(exc).__name__, "msg": str(exc)[:300], "where": where_of(exc)}


def new_compiler(lookup_paths=None):
    from explorerscript.ssb_converting.ssb_compiler import ExplorerScriptSsbCompiler

    return ExplorerScriptSsbCompiler(PPL, list(lookup_paths) if lookup_paths else None)


def compile_exps(src: str, file_name: str = "/sim/main.exps", lookup_paths=None, compiler=None) -> dict:
    c = compiler or new_compiler(lookup_paths)
    try:
        c.compile(src, file_name)
    except BaseException as e:
        if isinstance(e, (KeyboardInterrupt, SystemExit)):
            raise
        return raised(e)
    return {"ok": model.compile_digest(c)}


def new_decompiler(doc: dict):
    from explorerscript.ssb_converting.ssb_decompiler import ExplorerScriptSsbDecompiler
    from explorerscript.ssb_converting.ssb_data_types import DungeonModeConstants

    infos, coros, rops = model.routines_from_json(doc)
    return ExplorerScriptSsbDecompiler(infos, rops, coros, PPL, DungeonModeConstants(*DMC)), (infos, coros, rops)


def decompile_exps(doc: dict) -> dict:
    d, _ = new_decompiler(doc)
    try:
        text, sm = d.convert()
    except BaseException as e:
        if isinstance(e, (KeyboardInterrupt, SystemExit)):
            raise
        return raised(e)
    return {"ok": model.decompile_digest(text, sm)}


def decompile_ssbs(doc: dict) -> dict:
    from explorerscript.ssb_script.ssb_converting.ssb_decompiler import SsbScriptSsbDecompiler

    infos, coros, rops = model.routines_from_json(doc)
    try:
        text, sm = SsbScriptSsbDecompiler(infos, rops, coros).convert()
    except BaseException as e:
        if isinstance(e, (KeyboardInterrupt, SystemExit)):
            raise
        return raised(e)
    return {"ok": model.decompile_digest(text, sm)}


def compile_ssbs(src: str) -> dict:
    from explorerscript.ssb_script.ssb_converting.ssb_compiler import SsbScriptSsbCompiler

    c = SsbScriptSsbCompiler()
    try:
        c.compile(src)
    except BaseException as e:
        if isinstance(e, (KeyboardInterrupt, SystemExit)):
            raise
        return raised(e)
    d = model.routines_to_json(c.routine_infos, c.named_coroutines, c.routine_ops)
    import json

    d["source_map"] = json.loads(c.source_map.serialize())
    return {"ok": d}


def normalise_for_fallback(view: list) -> list:
    """C06 compares routines, opcodes, parameters and jump targets. The link target of GENERIC routines and
    coroutines carries no information (the two compilers fill it differently), so it is not compared."""
    out = []
    for typ, linked_to, linked_to_name, coro, ops in view:
        if typ in ("GENERIC", "COROUTINE"):
            linked_to, linked_to_name = None, None
        elif linked_to_name:
            linked_to = -1
        out.append([typ, linked_to, linked_to_name, coro if typ == "COROUTINE" else None, ops])
    return out


def fallback_differences(input_doc: dict, text: str) -> list[str]:
    """Empty list iff `text` is marked SsbScript that the ExplorerScript compiler turns back into the
    input op for op (C06's recovery contract)."""
    first = text.split("\n", 1)[0]
    if first.strip() != MARKER:
        return [f"first line is not the marker: {first[:60]!r}"]
    out = compile_exps(text, "/sim/fallback.exps")
    if "raised" in out:
        return [f"fallback text does not compile: {out['raised']}: {out['msg'][:120]}"]
    got = {"routines": out["ok"]["routines"]}
    a = normalise_for_fallback(model.structural_view(input_doc))
    b = normalise_for_fallback(model.structural_view(got))
    diffs = []
    if len(a) != len(b):
        diffs.append(f"routine count {len(a)} -> {len(b)}")
    for i, (ra, rb) in enumerate(zip(a, b)):
        if ra[:4] != rb[:4]:
            diffs.append(f"routine {i} header {ra[:4]} -> {rb[:4]}")
        if len(ra[4]) != len(rb[4]):
            diffs.append(f"routine {i} op count {len(ra[4])} -> {len(rb[4])}")
        for j, (x, y) in enumerate(zip(ra[4], rb[4])):
            if x != y:
                diffs.append(f"routine {i} op {j}: {x} -> {y}")
                if len(diffs) > 6:
                    return diffs
    return diffs


def fallback_map_differences(input_doc: dict, text: str, sm) -> list[str]:
    """The source map returned with a fallback is a map of the returned text: one entry per op, each pointing at the
    line and column where that op's name is written; one position mark per `Position<...>` written, on the line of the
    op that carries it. (Only the SsbScript fallback is judged this way: there every op is one call statement.)"""
    if not isinstance(sm, dict):
        return [f"source map unreadable: {sm!r}"[:120]]
    lines = text.split("\n")
    diffs = []
    ops = {o["off"]: o for r in input_doc["routines"] for o in r["ops"]}
    mp = sm.get("map", {})
    if sorted(int(k) for k in mp) != sorted(ops):
        diffs.append(f"ops mapped {len(mp)}, ops in the routine set {len(ops)}")
    for k, (ln, col) in mp.items():
        o = ops.get(int(k))
        if o is None:
            continue
        if not (0 <= ln < len(lines)) or not lines[ln][col:].startswith(o["op"] + "("):
            diffs.append(f"op {k} ({o['op']}) mapped to {ln}:{col} where the text has {lines[ln][col:col + 20]!r}" if 0 <= ln < len(lines) else f"op {k} mapped outside the text")
            break
    want_marks = sum(1 for o in ops.values() for p in o["params"] if isinstance(p, dict) and p.get("t") == "pos")
    marks = sm.get("pos_marks", [])
    if len(marks) != want_marks:
        diffs.append(f"{len(marks)} position marks in the map, {want_marks} position markers in the routine set")
    op_lines = {ln for ln, _ in mp.values()}
    for m in marks:
        if m[0] not in op_lines:
            diffs.append(f"position mark {m[4]!r} on line {m[0]}, where no op is mapped")
            break
    if sm.get("macros", {}).get("map") or sm.get("macros", {}).get("pos_marks"):
        diffs.append("macro entries in a decompiler's source map")
    return diffs


class _TooSlow(BaseException):
    pass


def decompiles_in_time(doc: dict, cpu_s: float = 5.0) -> bool:
    """False if the ExplorerScript decompiler needs more than cpu_s of CPU for this routine set (path enumeration in
    build_loops explodes for some jump-heavy sets: a pure-function pathology that would only turn into time-outs)."""
    import signal

    def on_alarm(signum, frame):
        raise _TooSlow()

    old = signal.signal(signal.SIGVTALRM, on_alarm)
    signal.setitimer(signal.ITIMER_VIRTUAL, cpu_s)
    try:
        out = decompile_exps(__import__('copy').deepcopy(doc))
        return out.get("raised") != "_TooSlow"
    except _TooSlow:
        return False
    finally:
        signal.setitimer(signal.ITIMER_VIRTUAL, 0)
        signal.signal(signal.SIGVTALRM, old)


