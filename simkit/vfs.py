"""In-memory file system behind the only seams the system uses to reach files:
os.path.exists, os.path.realpath, os.getcwd and the `open` that explorerscript.util.open_utf8 calls.

Physical path semantics, as the kernel and os.path.realpath have them: symbolic links are resolved
component by component, `..` is applied to the resolved directory. Every call is an event (counted,
optionally logged) and a possible fault point (per-call fault specs).
"""
from __future__ import annotations

import errno
import io
import os
import posixpath


class VfsFault(Exception):
    pass


class Vfs:
    def __init__(self, cwd: str = "/"):
        self.nodes: dict[str, tuple] = {"/": ("d",)}  # path -> ("d",) | ("f", bytes) | ("l", target)
        self.cwd = cwd
        self.events: list[tuple] = []
        self.counts: dict[str, int] = {}
        self.faults: list[dict] = []  # {"call": "open", "path": p or None, "nth": k, "errno": EIO, "fired": False}
        self.log_events = False
        self.written: dict[str, bytes] = {}
        self.clock = 1_700_000_000  # logical modification clock: every write ticks it
        self.mtimes: dict[str, int] = {}
        # descriptors: a file object holds one from open() until close() or until the object is freed; a process has only
        # so many (RLIMIT_NOFILE) - None = unlimited
        self.open_files = 0
        self.max_open_files = None
        self.peak_open_files = 0

    # ---- construction --------------------------------------------------------------------
    def mkdir(self, path: str) -> None:
        path = posixpath.normpath(path)
        parts = [p for p in path.split("/") if p]
        cur = ""
        for p in parts:
            cur += "/" + p
            if cur not in self.nodes:
                self.nodes[cur] = ("d",)

    def write(self, path: str, data: str | bytes) -> None:
        path = posixpath.normpath(path)
        self.mkdir(posixpath.dirname(path))
        if isinstance(data, str):
            data = data.encode("utf-8")
        self.nodes[path] = ("f", data)
        self.clock += 1
        self.mtimes[path] = self.clock

    def mkfifo(self, path: str, data: str | bytes) -> None:
        """A named pipe / character device with `data` waiting in it: exists, can be opened and read, is not a regular
        file (what `cmd <(producer)`, /dev/stdin or /proc/self/fd/N give a program as a path)."""
        path = posixpath.normpath(path)
        self.mkdir(posixpath.dirname(path))
        if isinstance(data, str):
            data = data.encode("utf-8")
        self.nodes[path] = ("p", data)

    def symlink(self, path: str, target: str) -> None:
        path = posixpath.normpath(path)
        self.mkdir(posixpath.dirname(path))
        self.nodes[path] = ("l", target)

    def remove(self, path: str) -> None:
        path = posixpath.normpath(path)
        for k in [k for k in self.nodes if k == path or k.startswith(path + "/")]:
            del self.nodes[k]

    def dump(self) -> dict:
        out = {}
        for k, v in sorted(self.nodes.items()):
            if v[0] == "d":
                out[k] = {"d": 1}
            elif v[0] == "f":
                out[k] = {"f": v[1].decode("utf-8", "surrogateescape")}  # bytes that are not UTF-8 survive dump / load
            elif v[0] == "p":
                out[k] = {"p": v[1].decode("utf-8", "surrogateescape")}
            else:
                out[k] = {"l": v[1]}
        return {"cwd": self.cwd, "nodes": out}

    @classmethod
    def load(cls, d: dict) -> "Vfs":
        v = cls(d.get("cwd", "/"))
        for k, n in d["nodes"].items():
            if "d" in n:
                v.nodes[k] = ("d",)
            elif "f" in n:
                v.nodes[k] = ("f", n["f"].encode("utf-8", "surrogateescape"))
            elif "p" in n:
                v.nodes[k] = ("p", n["p"].encode("utf-8", "surrogateescape"))
            else:
                v.nodes[k] = ("l", n["l"])
        return v

    # ---- resolution ----------------------------------------------------------------------
    def _abs(self, path) -> str:
        path = os.fspath(path)
        if isinstance(path, bytes):
            path = path.decode("utf-8")
        if not path.startswith("/"):
            path = posixpath.join(self.cwd, path)
        return path

    def _resolve(self, path: str, follow_last: bool = True, depth: int = 0) -> tuple[str, bool]:
        """-> (resolved path, exists). Physical semantics; non-existing tails are kept (non-strict)."""
        if depth == 0:
            self._why = None  # why the last resolution found nothing: "enoent" | "enotdir" | "eloop"
        if depth > 40:
            self._why = "eloop"
            return path, False
        path = self._abs(path)
        parts = [p for p in path.split("/") if p and p != "."]
        cur = "/"
        exists = True
        i = 0
        while i < len(parts):
            p = parts[i]
            i += 1
            if p == "..":
                cur = posixpath.dirname(cur) or "/"
                continue
            nxt = posixpath.join(cur, p)
            node = self.nodes.get(nxt) if exists else None
            if node is None:
                if exists:
                    self._why = self._why or "enoent"
                exists = False
                cur = nxt
                continue
            if node[0] == "l" and (follow_last or i < len(parts)):
                tgt = node[1]
                base = tgt if tgt.startswith("/") else posixpath.join(cur, tgt)
                rest = "/".join(parts[i:])
                return self._resolve(posixpath.join(base, rest) if rest else base, follow_last, depth + 1)
            if node[0] in ("f", "p") and i < len(parts):
                exists = False
                self._why = "enotdir"
            cur = nxt
        return cur, exists

    # ---- the seams -----------------------------------------------------------------------
    def _event(self, call: str, path: str):
        self.counts[call] = self.counts.get(call, 0) + 1
        if self.log_events:
            self.events.append((call, path))
        for f in self.faults:
            if f.get("fired") or f["call"] != call:
                continue
            if f.get("path") is not None and f["path"] != path:
                continue
            f["seen"] = f.get("seen", 0) + 1
            if f["seen"] == f.get("nth", 1):
                f["fired"] = True
                return f
        return None

    def exists(self, path) -> bool:
        try:
            p = self._abs(path)
        except TypeError:
            return False
        f = self._event("exists", p)
        if f is not None and f.get("effect") == "false":
            return False
        _, ex = self._resolve(p)
        return ex

    def realpath(self, path, *, strict: bool = False) -> str:
        p = self._abs(path)
        self._event("realpath", p)
        r, ex = self._resolve(p)
        if strict and not ex:
            if self._why == "enotdir":
                raise NotADirectoryError(errno.ENOTDIR, os.strerror(errno.ENOTDIR), p)
            if self._why == "eloop":
                raise OSError(errno.ELOOP, os.strerror(errno.ELOOP), p)
            raise FileNotFoundError(errno.ENOENT, os.strerror(errno.ENOENT), p)
        return r

    # ---- stat family (not used by the pinned tree; present so that a change that starts to stat files still runs
    #      against the simulated file system instead of the real one) -------------------------------------
    def _stat(self, path, follow=True):
        import stat as st

        p = self._abs(path)
        self._event("stat", p)
        r, ex = self._resolve(p, follow_last=follow)
        if not ex:
            raise FileNotFoundError(errno.ENOENT, os.strerror(errno.ENOENT), p)
        node = self.nodes[r]
        if node[0] == "d":
            mode, size = st.S_IFDIR | 0o755, 4096
        elif node[0] == "l":
            mode, size = st.S_IFLNK | 0o777, len(node[1])
        elif node[0] == "p":
            mode, size = st.S_IFIFO | 0o600, 0
        else:
            mode, size = st.S_IFREG | 0o644, len(node[1])
        mt = self.mtimes.get(r, 1_700_000_000)
        return os.stat_result((mode, abs(hash(r)) % (1 << 31), 1, 1, 0, 0, size, mt, mt, mt))

    def stat(self, path, *a, **kw):
        return self._stat(path, kw.get("follow_symlinks", True))

    def lstat(self, path, *a, **kw):
        return self._stat(path, False)

    def isfile(self, path):
        try:
            p = self._abs(path)
        except TypeError:
            return False
        # an existence test like `exists` (same event kind, same fault point): a tree may use either
        f = self._event("exists", p)
        if f is not None and f.get("effect") == "false":
            return False
        r, ex = self._resolve(p)
        return ex and self.nodes[r][0] == "f"

    def isdir(self, path):
        try:
            r, ex = self._resolve(self._abs(path))
        except TypeError:
            return False
        return ex and self.nodes[r][0] == "d"

    def islink(self, path):
        r, ex = self._resolve(self._abs(path), follow_last=False)
        return ex and self.nodes[r][0] == "l"

    def getmtime(self, path):
        return float(self._stat(path).st_mtime)

    def getsize(self, path):
        return self._stat(path).st_size

    def listdir(self, path="."):
        r, ex = self._resolve(self._abs(path))
        if not ex or self.nodes[r][0] != "d":
            raise FileNotFoundError(errno.ENOENT, os.strerror(errno.ENOENT), path)
        pre = r.rstrip("/") + "/"
        return sorted({k[len(pre):].split("/")[0] for k in self.nodes if k.startswith(pre) and k != r})

    def getcwd(self) -> str:
        self._event("getcwd", self.cwd)
        return self.cwd

    def chdir(self, path) -> None:
        """The working directory belongs to the process (all of its threads)."""
        p = self._abs(path)
        self._event("chdir", p)
        r, ex = self._resolve(p)
        if not ex:
            raise FileNotFoundError(errno.ENOENT, os.strerror(errno.ENOENT), p)
        if self.nodes[r][0] != "d":
            raise NotADirectoryError(errno.ENOTDIR, os.strerror(errno.ENOTDIR), p)
        self.cwd = r

    def open(self, file, mode="r", *args, **kwargs):
        p = self._abs(file)
        f = self._event("open", p)
        if f is not None:
            raise OSError(f.get("errno", errno.EIO), os.strerror(f.get("errno", errno.EIO)), p)
        encoding = kwargs.get("encoding") or "utf-8"
        r, ex = self._resolve(p)
        if "r" in mode and "+" not in mode:
            if not ex:
                raise FileNotFoundError(errno.ENOENT, os.strerror(errno.ENOENT), p)
            node = self.nodes[r]
            if node[0] == "d":
                raise IsADirectoryError(errno.EISDIR, os.strerror(errno.EISDIR), p)
            data = node[1]
            if self.max_open_files is not None and self.open_files >= self.max_open_files:
                self.counts["emfile"] = self.counts.get("emfile", 0) + 1
                raise OSError(errno.EMFILE, os.strerror(errno.EMFILE), p)
            if "b" in mode:
                return _VfsBytesReader(self, data)
            return _VfsTextReader(self, data.decode(encoding))
        if "w" in mode or "a" in mode or "x" in mode:
            parent, pex = self._resolve(posixpath.dirname(r))
            if not pex or self.nodes.get(parent, ("x",))[0] != "d":
                raise FileNotFoundError(errno.ENOENT, os.strerror(errno.ENOENT), p)
            if ex and self.nodes[r][0] == "d":
                raise IsADirectoryError(errno.EISDIR, os.strerror(errno.EISDIR), p)
            return _VfsWriter(self, r, "b" in mode, encoding, self._write_fault(r))
        raise ValueError(f"vfs: unsupported mode {mode!r}")

    def _write_fault(self, path):
        for f in self.faults:
            if f["call"] == "write" and not f.get("fired") and (f.get("path") is None or f["path"] == path):
                return f
        return None

    # ---- installation --------------------------------------------------------------------
    def install(self):
        """Patch the seams in this process (a forked child: nothing to restore afterwards)."""
        import explorerscript.util as util

        os.path.exists = self.exists
        os.path.realpath = self.realpath
        posixpath.exists = self.exists
        posixpath.realpath = self.realpath
        os.getcwd = self.getcwd
        os.chdir = self.chdir
        util.open = self.open  # open_utf8() looks `open` up in its module globals first
        for mod in (os.path, posixpath):
            mod.isfile, mod.isdir, mod.islink = self.isfile, self.isdir, self.islink
            mod.getmtime, mod.getsize = self.getmtime, self.getsize
            mod.lexists = lambda p: self._resolve(self._abs(p), follow_last=False)[1]
        os.stat, os.lstat, os.listdir = self.stat, self.lstat, self.listdir
        return self


class _Counted:
    """Descriptor accounting of a read handle: taken at open, given back at close() or when the object is freed."""

    def _take(self, vfs):
        self._vfs = vfs
        self._holds = True
        vfs.open_files += 1
        vfs.peak_open_files = max(vfs.peak_open_files, vfs.open_files)

    def _give_back(self):
        if getattr(self, "_holds", False):
            self._holds = False
            self._vfs.open_files -= 1


class _VfsTextReader(io.StringIO, _Counted):
    def __init__(self, vfs, text):
        io.StringIO.__init__(self, text)
        self._take(vfs)

    def close(self):
        self._give_back()
        io.StringIO.close(self)

    def __del__(self):
        self._give_back()


class _VfsBytesReader(io.BytesIO, _Counted):
    def __init__(self, vfs, data):
        io.BytesIO.__init__(self, data)
        self._take(vfs)

    def close(self):
        self._give_back()
        io.BytesIO.close(self)

    def __del__(self):
        self._give_back()


class _VfsWriter:
    """File object for writes; a write fault makes the n-th byte fail with ENOSPC/EIO (short write kept)."""

    def __init__(self, vfs: Vfs, path: str, binary: bool, encoding: str, fault):
        self.vfs, self.path, self.binary, self.encoding, self.fault = vfs, path, binary, encoding, fault
        self.buf = bytearray()
        self.closed = False
        vfs.nodes[path] = ("f", b"")

    def write(self, s):
        b = s if self.binary else s.encode(self.encoding)
        if self.fault is not None and not self.fault.get("fired"):
            room = self.fault.get("after_bytes", 0) - len(self.buf)
            if len(b) > room:
                self.buf += b[: max(room, 0)]
                self.fault["fired"] = True
                self.vfs.nodes[self.path] = ("f", bytes(self.buf))
                self.vfs.counts["write_fault"] = self.vfs.counts.get("write_fault", 0) + 1
                raise OSError(self.fault.get("errno", errno.ENOSPC), os.strerror(self.fault.get("errno", errno.ENOSPC)), self.path)
        self.buf += b
        return len(s)

    def flush(self):
        self.vfs.nodes[self.path] = ("f", bytes(self.buf))
        self.vfs.clock += 1
        self.vfs.mtimes[self.path] = self.vfs.clock

    def close(self):
        if not self.closed:
            self.closed = True
            self.flush()

    def __enter__(self):
        return self

    def __exit__(self, *a):
        self.close()
        return False
