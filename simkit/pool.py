"""Process model: every simulated process is a fork() of a pristine snapshot.

`forkrun(fn, *args)`  - run fn in a forked child of *this* process, return its (picklable) result.
                        A child that dies, hangs past `timeout` or raises is reported as HarnessError,
                        never as a property result.
`pmap(fn, items)`     - run fn(item) for every item on W shard workers. Shard workers are forks of the
                        pristine parent and never run system code themselves: they call forkrun for that,
                        so each run starts from the same cold snapshot whatever the worker count.
"""
from __future__ import annotations

import faulthandler
import gc
import os
import pickle
import select
import signal
import sys
import time
import traceback
from concurrent.futures import ProcessPoolExecutor
import multiprocessing as mp


class HarnessError(Exception):
    pass


def _read_all(fd: int, deadline: float, pid: int) -> bytes | None:
    chunks = []
    while True:
        left = deadline - time.monotonic()
        if left <= 0:
            return None
        r, _, _ = select.select([fd], [], [], min(left, 1.0))
        if not r:
            continue
        b = os.read(fd, 1 << 16)
        if not b:
            return b"".join(chunks)
        chunks.append(b)


def forkrun(fn, *args, timeout: float = 120.0, **kwargs):
    """Run fn(*args) in a forked child; returns its result. Raises HarnessError on child failure."""
    rfd, wfd = os.pipe()
    sys.stdout.flush()
    sys.stderr.flush()
    pid = os.fork()
    if pid == 0:
        # --- child: the simulated process ---
        code = 0
        try:
            os.close(rfd)
            faulthandler.enable()
            faulthandler.dump_traceback_later(max(timeout - 2.0, 1.0), exit=True)
            sys.stderr = open(os.devnull, "w")  # ANTLR console listener chatter; faulthandler writes to fd 2 itself
            gc.disable()
            try:
                res = ("ok", fn(*args, **kwargs))
            except BaseException as e:  # harness-level failure inside the child
                res = ("err", f"{type(e).__name__}: {e}\n{traceback.format_exc()}")
            try:
                data = pickle.dumps(res, protocol=4)
            except Exception as e:
                data = pickle.dumps(("err", f"unpicklable result: {e!r}"))
            off = 0
            while off < len(data):
                off += os.write(wfd, data[off : off + (1 << 16)])
            os.close(wfd)
        except BaseException:
            code = 3
        finally:
            os._exit(code)
    os.close(wfd)
    try:
        data = _read_all(rfd, time.monotonic() + timeout, pid)
    finally:
        os.close(rfd)
    if data is None:
        try:
            os.kill(pid, signal.SIGKILL)
        except ProcessLookupError:
            pass
        os.waitpid(pid, 0)
        raise HarnessError(f"child timed out after {timeout}s in {getattr(fn, '__name__', fn)}")
    _, status = os.waitpid(pid, 0)
    if not data:
        raise HarnessError(f"child died without a result (wait status {status}) in {getattr(fn, '__name__', fn)}")
    kind, val = pickle.loads(data)
    if kind == "err":
        raise HarnessError(val)
    return val


def _stable(obj) -> str:
    """repr with dict keys sorted (set/dict iteration order must not matter for the fingerprint)."""
    if isinstance(obj, dict):
        return "{" + ",".join(f"{_stable(k)}:{_stable(v)}" for k, v in sorted(obj.items(), key=lambda kv: repr(kv[0]))) + "}"
    if isinstance(obj, (list, tuple)):
        return "[" + ",".join(_stable(x) for x in obj) + "]"
    if isinstance(obj, (set, frozenset)):
        return "{" + ",".join(sorted(_stable(x) for x in obj)) + "}"
    return repr(obj)


def _shard_call(packed):
    fn, item = packed
    try:
        return ("ok", fn(item))
    except HarnessError as e:
        return ("harness", str(e))
    except BaseException as e:
        return ("harness", f"{type(e).__name__}: {e}\n{traceback.format_exc()}")


def default_workers() -> int:
    try:
        w = int(os.environ.get("VERIF_WORKERS", "0"))
    except ValueError:
        w = 0
    if w > 0:
        return w
    return max(1, min(16, os.cpu_count() or 1))


def pmap(fn, items, workers: int | None = None, wall_cap: float | None = None, on_result=None):
    """Ordered results [(status, value)] for items; stops submitting once wall_cap seconds have passed.

    Items not run because of the cap get ("skipped", None).
    """
    items = list(items)
    workers = workers or default_workers()
    results = [("skipped", None)] * len(items)
    if not items:
        return results
    fp_file = os.environ.get("SIMKIT_FP_FILE")
    if fp_file:
        user_cb = on_result

        def on_result(i, r, _cb=user_cb):  # noqa: F811 - determinism self-test: fingerprint of every item result
            import hashlib, json as _json

            with open(fp_file, "a") as f:
                f.write(_json.dumps({"fn": getattr(fn, "__name__", "?"), "i": i, "status": r[0],
                                     "fp": hashlib.sha256(_stable(r[1]).encode()).hexdigest()[:20]}) + "\n")
            if _cb:
                _cb(i, r)
    t0 = time.monotonic()
    if workers == 1:
        for i, it in enumerate(items):
            if wall_cap is not None and time.monotonic() - t0 > wall_cap:
                break
            results[i] = _shard_call((fn, it))
            if on_result:
                on_result(i, results[i])
        return results
    ctx = mp.get_context("fork")
    with ProcessPoolExecutor(max_workers=workers, mp_context=ctx) as ex:
        pending = {}
        nxt = 0
        window = workers + 2  # small look-ahead: a wall cap must be able to stop the batch

        def submit_more():
            nonlocal nxt
            while nxt < len(items) and len(pending) < window:
                if wall_cap is not None and time.monotonic() - t0 > wall_cap:
                    nxt = len(items)
                    return
                fut = ex.submit(_shard_call, (fn, items[nxt]))
                pending[fut] = nxt
                nxt += 1

        submit_more()
        from concurrent.futures import wait, FIRST_COMPLETED

        while pending:
            done, _ = wait(list(pending), return_when=FIRST_COMPLETED)
            for fut in done:
                i = pending.pop(fut)
                try:
                    results[i] = fut.result()
                except BaseException as e:
                    results[i] = ("harness", f"worker failure: {type(e).__name__}: {e}")
                if on_result:
                    on_result(i, results[i])
            submit_more()
    return results
