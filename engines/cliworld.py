"""cliworld - C15 (scoped claim, DESIGN.md 5.5): the two CLI commands as two simulated processes.

`python -m explorerscript.cli.compile` and `python -m explorerscript.cli.decompile` run as real module
code (runpy, run_name="__main__") inside forked children whose argv, working directory, file system
and stdout/stderr are seams; the first one's stdout is stored as a file and handed to the second.
"""
from __future__ import annotations

import copy
import errno
import io
import json
import os
import random
import runpy
import subprocess
import sys
import tempfile
import traceback

from simkit import model, seeds, sut
from simkit.pool import forkrun, HarnessError, pmap
from simkit.vfs import Vfs
from gen import exps, macrolib
from engines.histworld import cli_json_of

ENGINE = "cliworld"
SETTINGS = {"settings": {"performance_progress_list_var_name": sut.PPL,
                         "dungeon_mode_constants": {"open": "DMODE_OPEN", "closed": "DMODE_CLOSED", "request": "DMODE_REQUEST", "open_request": "OPEN_AND_REQUEST"}}}


class FakeStream(io.TextIOBase):
    """stdout / stderr of the simulated process. `fail_after` bytes, the next write raises OSError(errno)."""

    def __init__(self, fail_after: int | None = None, err: int = errno.EPIPE, encoding: str = "utf-8"):
        self.buf = []
        self.n = 0
        self.fail_after = fail_after
        self.err = err
        self.failed = False
        self._enc = encoding  # what the terminal / pipe of this process is opened with (locale, PYTHONIOENCODING)
        self._fd = None

    @property
    def encoding(self):
        return self._enc

    def writable(self):
        return True

    def fileno(self):
        # a real descriptor of the simulated process (a forked child): code that re-points or inspects its standard
        # streams at descriptor level (os.dup2, os.fstat) works on /dev/null instead of failing on the fake
        if self._fd is None:
            self._fd = os.open(os.devnull, os.O_WRONLY)
        return self._fd

    def write(self, s):
        if self._enc != "utf-8":
            s.encode(self._enc)  # strict, as io.TextIOWrapper: UnicodeEncodeError for what the stream cannot carry
        b = len(s.encode("utf-8"))
        if self.fail_after is not None and self.n + b > self.fail_after:
            self.failed = True
            room = max(0, self.fail_after - self.n)
            self.buf.append(s.encode("utf-8")[:room].decode("utf-8", "ignore"))
            self.n = self.fail_after
            raise OSError(self.err, os.strerror(self.err))
        self.buf.append(s)
        self.n += b
        return len(s)

    def flush(self):
        pass

    def getvalue(self):
        return "".join(self.buf)


def _run_cli(module: str, argv: list[str], vfs_dump: dict, faults: list | None = None, stdout_fail_after=None, stdout_encoding="utf-8") -> dict:
    """One simulated CLI process: returns exit status, stdout, stderr, the file system afterwards."""
    sut.quiet_logging()
    import warnings

    warnings.simplefilter("ignore")
    vfs = Vfs.load(vfs_dump)
    vfs.faults = [dict(f) for f in (faults or [])]
    vfs.install()
    closed = stdout_fail_after == "closed"  # the process was started with its standard output closed (`>&-`)
    out, err = FakeStream(None if closed else stdout_fail_after, encoding=stdout_encoding), FakeStream()
    if closed:
        out.failed = True
    old = (sys.argv, sys.stdout, sys.stderr)
    sys.argv = [module] + list(argv)
    sys.stdout, sys.stderr = (None if closed else out), err
    code = 0
    g = None
    try:
        try:
            g = runpy.run_module(module, run_name="__main__")
        except SystemExit as e:
            c = e.code
            code = 0 if c is None else (c if isinstance(c, int) else 1)
        except BaseException:
            # what CPython does with an uncaught exception: traceback on stderr, status 1
            try:
                traceback.print_exc(file=err)
            except Exception:
                pass
            code = 1
    finally:
        sys.argv, sys.stdout, sys.stderr = old
    res = {"exit": code, "stdout": out.getvalue(), "stderr": err.getvalue()[-2000:], "files": vfs.dump()["nodes"],
           "faults_fired": [f for f in vfs.faults if f.get("fired")], "stdout_failed": out.failed, "vfs_counts": dict(vfs.counts)}
    if g is not None and module.endswith("decompile") and "routine_ops" in g:
        try:
            res["decoded"] = model.routines_to_json(g["routine_infos"], g["named_coroutines"], g["routine_ops"])
            # coroutine names as the decompiler will look them up: by routine index
            res["decoded_coro_by_index"] = {str(c.id): c.name for c in g["named_coroutines"]}
        except Exception as e:
            res["decoded_error"] = repr(e)
    return res


def run_cli(module, argv, vfs_dump, faults=None, stdout_fail_after=None, timeout=120, stdout_encoding="utf-8"):
    return forkrun(_run_cli, module, argv, vfs_dump, faults, stdout_fail_after, stdout_encoding, timeout=timeout)


def _lib_compile(vfs_dump: dict, main_abs: str, lookup_abs: list[str]) -> dict:
    sut.quiet_logging()
    vfs = Vfs.load(vfs_dump).install()
    with vfs.open(main_abs, "r", encoding="utf-8") as f:
        src = f.read()
    c = sut.new_compiler(lookup_abs)
    try:
        c.compile(src, main_abs)
    except Exception as e:
        return sut.raised(e)
    return {"ok": model.compile_digest(c), "sm": c.source_map.serialize()}


def _lib_compile_text(text: str) -> dict:
    sut.quiet_logging()
    return sut.compile_exps(text, "/sim/roundtrip.exps")


def _ws(p):
    if isinstance(p, dict) and p.get("t") == "str":
        return {"t": "str", "v": " ".join(p["v"].split())}
    if isinstance(p, dict) and p.get("t") == "lang":
        return {"t": "lang", "v": [[k, " ".join(v.split())] for k, v in p["v"]]}
    return p


def effect_ops(routines: list) -> list:
    """Sorted list of the reachable ops that DO something (everything but jumps, branches, cases and flow-ending ops), as
    canonical strings, per routine kind: a necessary condition for two routine sets to behave alike that does not
    depend on how control flow is laid out."""
    from simkit.model import JUMP_PARAM_INDEX, FLOW_END

    doc = {"routines": routines}
    by_off = {}
    order = []
    for ri, r in enumerate(routines):
        for i, o in enumerate(r["ops"]):
            by_off[o["off"]] = (ri, i)
            order.append(o["off"])
    seen = set()
    stack = [r["ops"][0]["off"] for r in routines if r["ops"]]
    while stack:
        off = stack.pop()
        if off in seen or off not in by_off:
            continue
        seen.add(off)
        ri, i = by_off[off]
        o = routines[ri]["ops"][i]
        ji = JUMP_PARAM_INDEX.get(o["op"])
        if ji is not None and ji < len(o["params"]) and isinstance(o["params"][ji], int):
            stack.append(o["params"][ji])
        if o["op"] not in FLOW_END and i + 1 < len(routines[ri]["ops"]):
            stack.append(routines[ri]["ops"][i + 1]["off"])
    out = []
    for off in order:
        if off not in seen:
            continue
        ri, i = by_off[off]
        o = routines[ri]["ops"][i]
        if o["op"] in JUMP_PARAM_INDEX or o["op"] in FLOW_END:
            continue
        # a dungeon mode may be written as a number or as the constant the settings give that number
        params = [sut.DMC.index(p_["v"]) if isinstance(p_, dict) and p_.get("t") == "const" and p_.get("v") in sut.DMC else p_ for p_ in o["params"]]
        # white space inside string literals is C04's business (multi-line strings are indented when printed and
        # dedented when parsed, which is not the identity for every content): compared modulo runs of white space
        params = [_ws(p_) for p_ in params]
        out.append(model.canon({"op": o["op"], "params": params}))
    return sorted(out)


def _lib_decompile(doc: dict) -> dict:
    sut.quiet_logging()
    return sut.decompile_exps(doc)


def _decompile_fast_enough(doc: dict) -> bool:
    sut.quiet_logging()
    return sut.decompiles_in_time(doc)


# ---- schema of the documented JSON (transcribed from docs/cli_api_usage.rst) ------------------------------


def schema_problems(d) -> list[str]:
    pr = []
    if not isinstance(d, dict) or set(d) != {"settings", "routines"}:
        return [f"top level keys {sorted(d) if isinstance(d, dict) else type(d).__name__}"]
    s = d["settings"]
    if not isinstance(s, dict) or "performance_progress_list_var_name" not in s or set(s.get("dungeon_mode_constants", {})) != {"open", "closed", "request", "open_request"}:
        pr.append("settings block")
    if not isinstance(d["routines"], list):
        return pr + ["routines is not a list"]
    for i, r in enumerate(d["routines"]):
        t = r.get("type")
        if t not in ("COROUTINE", "GENERIC", "ACTOR", "OBJECT", "PERFORMER"):
            pr.append(f"routine {i} type {t!r}")
            continue
        want = {"type", "ops"} | ({"name"} if t == "COROUTINE" else set()) | ({"target_id"} if t in ("ACTOR", "OBJECT", "PERFORMER") else set())
        if set(r) != want:
            pr.append(f"routine {i} keys {sorted(r)}")
        if t == "COROUTINE" and not isinstance(r.get("name"), str):
            pr.append(f"routine {i} name")
        if "target_id" in want and not isinstance(r.get("target_id"), (int, str)):
            pr.append(f"routine {i} target_id {r.get('target_id')!r}")
        for j, o in enumerate(r.get("ops", [])):
            if set(o) != {"opcode", "params"} or not isinstance(o["opcode"], str) or not isinstance(o["params"], list):
                pr.append(f"routine {i} op {j} shape")
                continue
            for p in o["params"]:
                if isinstance(p, bool) or not isinstance(p, (int, dict)):
                    pr.append(f"routine {i} op {j} param {p!r}")
                elif isinstance(p, dict):
                    if set(p) != {"type", "value"}:
                        pr.append(f"routine {i} op {j} param keys")
                    elif p["type"] in ("CONSTANT", "CONST_STRING", "FIXED_POINT") and not isinstance(p["value"], str):
                        pr.append(f"routine {i} op {j} {p['type']} value {p['value']!r}")
                    elif p["type"] == "LANG_STRING" and not (isinstance(p["value"], dict) and all(isinstance(k, str) and isinstance(v, str) for k, v in p["value"].items())):
                        pr.append(f"routine {i} op {j} LANG_STRING")
                    elif p["type"] == "POSITION_MARK" and not (isinstance(p["value"], dict) and set(p["value"]) == {"name", "x", "y"}):
                        pr.append(f"routine {i} op {j} POSITION_MARK")
                    elif p["type"] not in ("CONSTANT", "CONST_STRING", "FIXED_POINT", "LANG_STRING", "POSITION_MARK"):
                        pr.append(f"routine {i} op {j} param type {p['type']!r}")
    return pr


def _norm_doc(d: dict) -> dict:
    """Position mark coordinates may be printed as 10 or "10" (the docs show both)."""
    d = copy.deepcopy(d)
    for r in d.get("routines", []):
        for o in r.get("ops", []):
            for p in o.get("params", []):
                if isinstance(p, dict) and p.get("type") == "POSITION_MARK" and isinstance(p.get("value"), dict):
                    for k in ("x", "y"):
                        if k in p["value"]:
                            p["value"][k] = str(p["value"][k])
    return d


def _decoded_view(decoded: dict, coro_by_index: dict) -> list:
    d = copy.deepcopy(decoded)
    for i, r in enumerate(d["routines"]):
        if r["type"] == "COROUTINE":
            r["coro"] = coro_by_index.get(str(i))
    return sut.normalise_for_fallback(model.structural_view(d))


# ---- worlds ---------------------------------------------------------------------------------------------

JUMPY = [
    "def 0 {\n    if ($A == 1) {\n        x();\n    }\n    y();\n    end;\n}\n",
    "def 0 {\n    a();\n    if ($A == 1) { b(); } else { c(); }\n    switch ($B) { case 1: d(); break; case 2: e(); }\n    forever { f(); if ($C < 2) { break_loop; } }\n    end;\n}\n",
    "coro CORO_A {\n    a();\n    if (debug) { return; }\n    b();\n    end;\n}\ncoro CORO_B {\n    alias previous;\n}\ncoro CORO_C {\n    c(Position<'m', 1, 2.5>);\n    hold;\n}\n",
    "def 0 {\n    a(1.5, 'x', {english='e', german=\"g\"}, Position<'P', 10, 20.5>, CONST, $VAR, -3);\n    end;\n}\ndef 1 for actor ACTOR_X {\n    b();\n    jump @l;\n    @l;\n    c();\n    hold;\n}\ndef 2 for object 3 {\n    alias previous;\n}\ndef 3 for performer (0) {\n    d();\n    end;\n}\n",
]


# small statements combined systematically: whether the compiler drops a jump (gaps in its offsets), keeps every op, or
# emits ops in an order other than their numbering depends on exactly these shapes
TEMPLATES = {
    "op": "a{n}();",
    "args": "a{n}(Position<'P', 1, 2.5>, 1.5, 'str', {{english='e', german=\"g\"}}, CONST, $V, -3);",
    "if": "if ($A == 1) {{ b{n}(); }}",
    "if_else": "if ($A == 1) {{ b{n}(); }} else {{ c{n}(); }}",
    "if_else_end": "if ($A == 1) {{ b{n}(); end; }} else {{ c{n}(); hold; }}",
    "elseif": "if ($A == 1) {{ b{n}(); }} elseif ($B > 2) {{ c{n}(); }} else {{ d{n}(); }}",
    "if_or": "if ($A == 1 || debug || $B[2]) {{ b{n}(); }}",
    "switch_break": "switch ($A) {{ case 1: b{n}(); break; case 2: c{n}(); break; }}",
    "switch_default_end": "switch ($A) {{ case 1: b{n}(); end; case 2: c{n}(); return; default: d{n}(); hold; }}",
    "switch_default_fall": "switch ($A) {{ case 1: b{n}(); end; default: d{n}(); }}",
    "switch_default_first": "switch ($A) {{ default: d{n}(); end; case 1: b{n}(); end; }}",
    "switch_default_break": "switch ($A) {{ case 1: b{n}(); break; default: d{n}(); break; }}",
    "switch_fallthrough": "switch (random(3)) {{ case 1: case 2: b{n}(); case 3: c{n}(); break; }}",
    "msgswitch": "message_SwitchTalk ($A) {{ case 1: 'x' default: 'y' }}",
    "forever": "forever {{ b{n}(); if ($A == 1) {{ break_loop; }} }}",
    "while": "while ($A < 3) {{ b{n}(); }}",
    "while_not": "while not ($A < 3) {{ b{n}(); continue; }}",
    "for": "for (i{n}(); $A < 3; n{n}();) {{ b{n}(); }}",
    "label_jump": "@l{n}; b{n}(); if ($A == 1) {{ jump @l{n}; }}",
    "jump_fwd": "if ($A == 1) {{ jump @f{n}; }} b{n}(); @f{n}; c{n}();",
    "call": "if ($A == 1) {{ call @f{n}; }} b{n}(); @f{n}; c{n}();",
    "with": "with (actor 1) {{ b{n}(); }}",
    "macro": "~tm(1);",
}
TEMPLATE_MACRO = "macro tm($a) {\n    if ($a == 1) {\n        return;\n    }\n    m($a);\n}\n"


SPECIAL_PROGRAMS = [
    # a jump into a LATER routine with a dropped op before the target (positions of later routines must be known)
    "def 0 {\n    jump @skip;\n    @skip;\n    a();\n    jump @later;\n}\ndef 1 {\n    if ($A == 1) {\n        b();\n    }\n    @later;\n    target_op();\n    hold;\n}\n",
    "def 0 {\n    if ($A == 1) {\n        x();\n    }\n    call @sub;\n    end;\n}\ndef 1 for actor ACTOR_X {\n    y();\n    @sub;\n    z();\n    return;\n}\ndef 2 for object 3 {\n    jump @sub;\n}\n",
    # accepted programs without any routine
    "macro only() {\n    o();\n}\n",
    "// nothing here\n",
    "",
    # regression stimuli of three repaired decompiler defects (known_findings.json: bb60630, f85ffed, 5613385)
    "def 0 {\n    while ($A < 3) {\n        b0();\n    }\n    hold;\n}\n",
    "def 0 {\n    a();\n    end;\n}\ndef 1 for actor ACTOR_X {\n    for (i(); $A < 3; n();) {\n        b0();\n    }\n    end;\n}\n",
    "def 0 {\n    dungeon_mode(3) = DMODE_OPEN;\n    dungeon_mode(4) = 2;\n    switch (dungeon_mode(3)) {\n        case DMODE_OPEN:\n            a();\n            break;\n        case DMODE_REQUEST:\n            b();\n            break;\n        case OPEN_AND_REQUEST:\n            c();\n            break;\n    }\n    end;\n}\n",
    "coro CORO_T {\n    forever {\n        while ($S <= 42) {\n            while ($A & 3) {\n                x(1);\n                y(2);\n            }\n        }\n        z();\n        if ($A < $B) {\n            break_loop;\n        }\n    }\n    end;\n}\n",
    # the first op of a routine reached only from another routine (b6dab34)
    "def 0 {\n    @top;\n    foo();\n    bar();\n    end;\n}\ndef 1 {\n    baz();\n    jump @top;\n}\n",
    "def 0 {\n    jump @later;\n}\ndef 1 for actor 2 {\n    @later;\n    b();\n    end;\n}\n",
    "def 0 {\n    a();\n    call @sub;\n    end;\n}\ndef 1 {\n    @sub;\n    s();\n    return;\n}\n",
    "def 0 {\n    if ($A == 1) {\n        jump @other;\n    }\n    end;\n}\ndef 1 {\n    @other;\n    o();\n    hold;\n}\n",
    # first / last op of the document as jump targets
    "def 0 {\n    @top;\n    a();\n    if ($A == 1) {\n        jump @top;\n    }\n    @bottom;\n    end;\n}\ndef 1 {\n    jump @bottom;\n}\n",
]


def template_program(rng: random.Random) -> str:
    if rng.random() < 0.2:
        return rng.choice(SPECIAL_PROGRAMS)
    names = sorted(TEMPLATES)
    k = rng.choice([1, 1, 2, 2, 3])
    picks = [rng.choice(names) for _ in range(k)]
    body = "\n    ".join(TEMPLATES[p].format(n=i) for i, p in enumerate(picks))
    term = rng.choice(["end;", "hold;", "return;"])
    hdr = rng.choice(["def 0 {", "def 0 {", "def 0 for actor ACTOR_X {", "coro CORO_T {"])
    src = (TEMPLATE_MACRO if "macro" in picks else "") + f"{hdr}\n    {body}\n    {term}\n}}\n"
    shape = rng.random()
    if shape < 0.25:
        p2 = rng.choice(names)
        src += f"def 1 {{\n    {TEMPLATES[p2].format(n=9)}\n    end;\n}}\n" if not hdr.startswith("coro") else f"coro CORO_U {{\n    {TEMPLATES[p2].format(n=9)}\n    end;\n}}\n"
    elif shape < 0.4 and not hdr.startswith("coro"):
        # routines of different kinds in one file: a coroutine that is not the first routine
        src += "coro CORO_MID {\n    mid();\n    return;\n}\ndef 2 for object 3 {\n    last();\n    end;\n}\n"
    return ("// " + "+".join(picks) + "\n" if rng.random() < 0.3 else "") + src


def gen_world(run_seed: int) -> dict:
    rng = seeds.stream(run_seed, "cliworld")
    v = Vfs("/proj")
    v.write("/proj/settings.json", json.dumps(SETTINGS))
    kind = rng.choice(["gen", "gen", "gen", "jumpy", "macros", "invalid", "template", "template", "template"])
    lookup_args: list[str] = []
    lookup_abs: list[str] = []
    main = "/proj/SCRIPT/main.exps"
    if kind == "jumpy":
        v.write(main, rng.choice(JUMPY))
    elif kind == "template":
        v.write(main, template_program(rng))
    elif kind == "invalid":
        from engines.histworld import INVALID_TEXTS

        v.write(main, rng.choice(INVALID_TEXTS))
    elif kind == "macros":
        lib = macrolib.gen_lib(rng)
        w = macrolib.gen_world(lib, rng, {"main_via_symlink": False})
        v = w.vfs
        v.cwd = "/proj"
        v.write("/proj/settings.json", json.dumps(SETTINGS))
        main = w.main
        lookup_abs = list(w.lookup)
        lookup_args = [p if rng.random() < 0.5 else os.path.relpath(p, "/proj") for p in lookup_abs]
    else:
        k = exps.swarm_knobs(rng, rng.choice(["small", "medium", "medium", "large"]))
        if rng.random() < 0.3:
            k["coroutines"] = True
        v.write(main, exps.ExpsGen(rng, k).program())
    srng = seeds.stream(run_seed, "settings-file")
    if srng.random() < 0.3:
        # "a JSON file that contains at least the settings block": a whole model of another script (say, the output of an
        # earlier compile run) serves as settings file - its routines are not this program's
        stale = {"settings": SETTINGS["settings"],
                 "routines": [{"type": "generic", "target_type": None, "target_id": None,
                               "ops": [{"opcode": "stale_op", "params": [1]}, {"opcode": "End", "params": []}]}]}
        if srng.random() < 0.5:
            stale["note"] = "kept from the last build"
        v.write("/proj/settings.json", json.dumps(stale))
    main_arg = main if rng.random() < 0.5 else os.path.relpath(main, "/proj")
    sm = rng.choice([None, "out.sm", "/proj/build/out.sm"])
    if sm == "/proj/build/out.sm":
        v.mkdir("/proj/build")
    argv = [main_arg, "--settings", rng.choice(["settings.json", "/proj/settings.json"])]
    if lookup_args:
        if len(lookup_args) > 1 and rng.random() < 0.5:
            # "--lookup PATH ... can be added multiple times" (docs/cli_api_usage.rst)
            for la in lookup_args:
                argv += ["--lookup", la]
        else:
            argv += ["--lookup"] + lookup_args
    if sm:
        argv += ["--source-map", sm]
    return {"kind": kind, "vfs": v.dump(), "argv": argv, "main_abs": main, "lookup_abs": lookup_abs, "sm": sm}


def handbuilt_documents() -> list[tuple[str, dict]]:
    """Documents that follow docs/cli_api_usage.rst literally."""

    def doc(routines):
        return {"settings": SETTINGS["settings"], "routines": routines}

    every_arg = [3, {"type": "FIXED_POINT", "value": "123.456"}, {"type": "CONSTANT", "value": "LEVEL_XYZ"},
                 {"type": "CONST_STRING", "value": "Hello World"}, {"type": "LANG_STRING", "value": {"english": "Hello World!", "german": "Hallo Welt!"}},
                 {"type": "POSITION_MARK", "value": {"name": "Name of the mark", "x": 10, "y": 20}}]
    out = []
    out.append(("every_argument_type_as_documented", doc([{"type": "GENERIC", "ops": [{"opcode": "op_a", "params": every_arg}, {"opcode": "End", "params": []}]}])))
    out.append(("position_mark_strings_as_in_example", doc([{"type": "GENERIC", "ops": [
        {"opcode": "vars", "params": [{"type": "POSITION_MARK", "value": {"name": "PositionName", "x": "10", "y": "10.5"}}, 2]}, {"opcode": "End", "params": []}]}])))
    out.append(("position_marks_negative_and_half_tiles_as_numbers_and_strings", doc([{"type": "GENERIC", "ops": [
        {"opcode": "vars", "params": [{"type": "POSITION_MARK", "value": {"name": "A", "x": -1.5, "y": 2.5}},
                                      {"type": "POSITION_MARK", "value": {"name": "B", "x": "-3.5", "y": -7}},
                                      {"type": "POSITION_MARK", "value": {"name": "C", "x": 0, "y": "-12.5"}}]},
        {"opcode": "End", "params": []}]}])))
    out.append(("coroutines", doc([{"type": "COROUTINE", "name": "CORO_A", "ops": [{"opcode": "op_a", "params": []}, {"opcode": "Return", "params": []}]},
                                   {"type": "COROUTINE", "name": "CORO_B", "ops": [{"opcode": "op_b", "params": [1]}, {"opcode": "End", "params": []}]}])))
    out.append(("every_routine_type", doc([
        {"type": "GENERIC", "ops": [{"opcode": "a", "params": []}, {"opcode": "End", "params": []}]},
        {"type": "ACTOR", "target_id": "TEST", "ops": [{"opcode": "test_actor", "params": []}, {"opcode": "Hold", "params": []}]},
        {"type": "ACTOR", "target_id": 2, "ops": [{"opcode": "test_actor_id", "params": []}, {"opcode": "End", "params": []}]},
        {"type": "OBJECT", "target_id": "OBJECT_X_1", "ops": [{"opcode": "o", "params": []}, {"opcode": "End", "params": []}]},
        {"type": "PERFORMER", "target_id": 0, "ops": [{"opcode": "p", "params": []}, {"opcode": "End", "params": []}]}])))
    out.append(("zero_routines", doc([])))
    out.append(("all_routines_empty", doc([{"type": "GENERIC", "ops": []}, {"type": "ACTOR", "target_id": 1, "ops": []}])))
    out.append(("coroutine_after_other_routines", doc([
        {"type": "GENERIC", "ops": [{"opcode": "a", "params": []}, {"opcode": "End", "params": []}]},
        {"type": "COROUTINE", "name": "CORO_X", "ops": [{"opcode": "x", "params": []}, {"opcode": "Return", "params": []}]},
        {"type": "ACTOR", "target_id": 0, "ops": [{"opcode": "b", "params": []}, {"opcode": "End", "params": []}]},
        {"type": "COROUTINE", "name": "CORO_Y", "ops": [{"opcode": "y", "params": []}, {"opcode": "End", "params": []}]}])))
    # the two settings of the document decide how some ops are printed: dungeon modes given as numbers, and the
    # variable named as performance progress list
    out.append(("dungeon_modes_as_numbers", doc([{"type": "GENERIC", "ops": [
        {"opcode": "flag_SetDungeonMode", "params": [3, 1]}, {"opcode": "flag_SetDungeonMode", "params": [4, 0]},
        {"opcode": "flag_SetDungeonMode", "params": [5, 2]}, {"opcode": "flag_SetDungeonMode", "params": [6, 3]},
        {"opcode": "SwitchDungeonMode", "params": [3]}, {"opcode": "Case", "params": [0, 9]}, {"opcode": "Case", "params": [1, 11]},
        {"opcode": "Jump", "params": [12]}, {"opcode": "a", "params": []}, {"opcode": "Jump", "params": [12]}, {"opcode": "b", "params": []},
        {"opcode": "End", "params": []}]}])))
    out.append(("performance_progress_list", doc([{"type": "GENERIC", "ops": [
        {"opcode": "flag_SetPerformance", "params": [5, 1]},
        {"opcode": "BranchPerformance", "params": [5, 1, 4]}, {"opcode": "End", "params": []}, {"opcode": "a", "params": []}, {"opcode": "End", "params": []}]}])))
    # jump parameters are 1-based positions counted across all routines (the example of the docs)
    out.append(("jumps_are_1_based_positions", doc([
        {"type": "GENERIC", "ops": [{"opcode": "a", "params": []}, {"opcode": "End", "params": []}]},
        {"type": "GENERIC", "ops": [{"opcode": "BranchValue", "params": [{"type": "CONSTANT", "value": "$TEST_VAR"}, 4, 3, 6]},
                                    {"opcode": "Jump", "params": [7]}, {"opcode": "b", "params": []}, {"opcode": "Jump", "params": [8]},
                                    {"opcode": "c", "params": []}, {"opcode": "End", "params": []}]}])))
    return out


def expected_of_document(d: dict) -> list:
    """Routine set a docs-conformant document denotes (offset = 1-based position)."""
    routines = []
    n = 0
    for r in d["routines"]:
        ops = []
        for o in r["ops"]:
            n += 1
            params = []
            for p in o["params"]:
                if isinstance(p, int):
                    params.append(p)
                elif p["type"] == "FIXED_POINT":
                    params.append({"t": "fp", "v": _fp(p["value"])})
                elif p["type"] == "CONSTANT":
                    params.append({"t": "const", "v": p["value"]})
                elif p["type"] == "CONST_STRING":
                    params.append({"t": "str", "v": p["value"]})
                elif p["type"] == "LANG_STRING":
                    params.append({"t": "lang", "v": [[k, v] for k, v in p["value"].items()]})
                else:
                    x, y = str(p["value"]["x"]), str(p["value"]["y"])
                    params.append({"t": "pos", "v": [p["value"]["name"], 2 if x.endswith(".5") else 0, 2 if y.endswith(".5") else 0,
                                                     int(x.split(".")[0], 0), int(y.split(".")[0], 0)]})
            ops.append({"off": n, "op": o["opcode"], "params": params})
        t = r["type"]
        tid = r.get("target_id")
        routines.append({"type": t, "linked_to": tid if isinstance(tid, int) else -1, "linked_to_name": tid if isinstance(tid, str) else None,
                         "coro": r.get("name"), "ops": ops})
    return sut.normalise_for_fallback(model.structural_view({"routines": routines}))


def _fp(v: str) -> str:
    from explorerscript.ssb_converting.ssb_data_types import SsbOpParamFixedPoint

    return SsbOpParamFixedPoint.from_str(v).value


# ---- one run ---------------------------------------------------------------------------------------------

COMPILE_FAULTS = ["settings_missing", "settings_invalid_json", "settings_key_missing", "settings_dmc_incomplete", "source_missing",
                  "source_map_dir_missing", "source_map_enospc", "stdout_fails", "stdout_closed", "settings_eio", "source_eio", "import_eio"]
DECOMPILE_FAULTS = ["json_missing", "json_invalid", "json_settings_missing", "json_routine_type_invalid", "json_op_without_params",
                    "source_map_dir_missing", "source_map_enospc", "stdout_fails", "stdout_closed", "json_eio"]


def run_world(item: dict) -> dict:
    run_seed = item["run_seed"]
    res = {"run_seed": run_seed, "violations": [], "pipelines": 0, "processes": 0, "faults": {}, "kind": None, "exits": {}}

    def viol(clause, kind, extra):
        res["violations"].append({"sig": {"clause": clause, "kind": kind}, "payload": extra})

    def count_exit(tag, code):
        k = f"{tag}:{code}"
        res["exits"][k] = res["exits"].get(k, 0) + 1

    frng = seeds.stream(run_seed, "faults")
    if "document" in item:
        # a hand-built document goes straight to the decompile command
        name, d = item["document"]
        res["kind"] = "handbuilt:" + name
        v = Vfs("/proj")
        v.write("/proj/in.json", json.dumps(d))
        r = run_cli("explorerscript.cli.decompile", ["in.json", "--source-map", "d.sm"], v.dump())
        res["processes"] += 1
        res["pipelines"] += 1
        count_exit("decompile", r["exit"])
        base = {"document": d, "name": name, "exit": r["exit"], "stderr": r["stderr"][-600:]}
        if r["exit"] != 0:
            viol("decompile-accepts-documented-documents", "exit-nonzero", base)
        else:
            if "decoded" not in r or _decoded_view(r["decoded"], r.get("decoded_coro_by_index", {})) != expected_of_document(d):
                viol("decompile-decodes-the-document", "routine-set-differs", base)
            if "/proj/d.sm" not in r["files"]:
                viol("exit-0-exactly-on-success", "decompile-exit-0-without-source-map", base)
            # the text printed is what the library gives for the decoded routine set under the document's settings
            if "decoded" in r:
                dec = copy.deepcopy(r["decoded"])
                for i, rr in enumerate(dec["routines"]):
                    if rr["type"] == "COROUTINE":
                        rr["coro"] = r.get("decoded_coro_by_index", {}).get(str(i))
                if all(rr["type"] != "COROUTINE" or rr["coro"] for rr in dec["routines"]):
                    libdec = forkrun(_lib_decompile, dec, timeout=120)
                    res["processes"] += 1
                    if "ok" in libdec and r["stdout"] != libdec["ok"]["text"] + "\n":
                        viol("decompile-decodes-the-document", "text-differs-from-the-library's-under-the-document's-settings",
                             {**base, "printed": r["stdout"][:600], "library": libdec["ok"]["text"][:600]})
        _decompile_faults(res, v.dump(), "in.json", d, frng, viol, count_exit)
        return res
    w = gen_world(run_seed)
    res["kind"] = w["kind"]
    lib = forkrun(_lib_compile, w["vfs"], w["main_abs"], w["lookup_abs"], timeout=120)
    res["processes"] += 1
    # the stream the compile command prints to is opened by its environment: mostly UTF-8, sometimes a legacy code page
    enc = seeds.stream(run_seed, "stdout-encoding").choice(["utf-8"] * 7 + ["ascii", "latin-1", "cp1252"])
    r = run_cli("explorerscript.cli.compile", w["argv"], w["vfs"], stdout_encoding=enc)
    res["processes"] += 1
    res["pipelines"] += 1
    res["stdout_encodings"] = {enc: 1}
    count_exit("compile", r["exit"])
    if enc != "utf-8" and r["exit"] != 0 and "UnicodeEncodeError" in r["stderr"]:
        # the environment could not carry the output: a delivery fault, not a wrong status (and nothing to hand on)
        res["undeliverable_on_legacy_stdout"] = 1
        return res
    base = {"world": {k: w[k] for k in ("vfs", "argv", "kind")}, "exit": r["exit"], "stderr": r["stderr"][-600:]}
    sm_path = None if not w["sm"] else (w["sm"] if w["sm"].startswith("/") else "/proj/" + w["sm"])
    if "raised" in lib:
        if r["exit"] == 0:
            viol("exit-0-exactly-on-success", "compile-exit-0-although-compilation-failed", {**base, "library": lib})
        return res
    expected = cli_json_of({"routines": lib["ok"]["routines"]})
    if r["exit"] != 0:
        viol("exit-0-exactly-on-success", "compile-exit-nonzero-although-everything-succeeded", base)
        return res
    try:
        printed = json.loads(r["stdout"])
    except Exception:
        viol("documented-structure", "stdout-is-not-json", base)
        return res
    sp = schema_problems(printed)
    if sp:
        viol("documented-structure", "schema", {**base, "problems": sp[:5]})
    elif _norm_doc(printed) != _norm_doc(expected):
        kind = "jump-parameter-is-not-the-1-based-position" if _only_jumps_differ(printed, expected) else "document-differs-from-library-result"
        viol("jump-parameters-are-positions" if kind.startswith("jump") else "documented-structure", kind, {**base, "first_difference": _doc_diff(printed, expected)})
    if sm_path is not None:
        node = r["files"].get(sm_path)
        if node is None or node.get("f") != lib["sm"]:
            viol("exit-0-exactly-on-success", "compile-exit-0-without-complete-source-map", base)
    # hand-off: the compile command's stdout is the decompile command's input
    if not forkrun(_decompile_fast_enough, {"routines": lib["ok"]["routines"]}, timeout=60):
        res["slow_decompile_skipped"] = 1  # structuring pathology (DESIGN.md 2.2): would only time out
        return res
    res["processes"] += 1
    v2 = Vfs.load(w["vfs"])
    wire = r["stdout"] if enc == "utf-8" else r["stdout"].encode(enc)
    if frng.random() < 0.25:
        # the hand-off through a pipe (`decompile <(compile ...)`, /dev/stdin): a path that exists and can be read but is
        # not a regular file
        v2.mkfifo("/proj/out.json", wire)
        res["handoff_through_pipe"] = 1
    else:
        v2.write("/proj/out.json", wire)
    r2 = run_cli("explorerscript.cli.decompile", ["out.json"] + (["--source-map", "dec.sm"] if frng.random() < 0.5 else []), v2.dump())
    res["processes"] += 1
    count_exit("decompile", r2["exit"])
    base2 = {**base, "decompile_exit": r2["exit"], "decompile_stderr": r2["stderr"][-600:]}
    want_view = sut.normalise_for_fallback(model.structural_view({"routines": lib["ok"]["routines"]}))
    if r2["exit"] != 0:
        viol("hand-off-is-accepted", "decompile-exit-nonzero-on-compile-output", base2)
    elif "decoded" not in r2:
        viol("hand-off-is-accepted", "nothing-decoded", base2)
    else:
        got_view = _decoded_view(r2["decoded"], r2.get("decoded_coro_by_index", {}))
        if got_view != want_view:
            viol("hand-off-is-lossless", "decoded-routine-set-differs-from-compiled-one", {**base2, "first_difference": _view_diff(got_view, want_view)})
        # ... "and yields a program behaving like the source" (necessary condition): compiled again, the text the decompile
        # command printed has the same ops that do something - each with the same parameters - as the compiled source
        rt = forkrun(_lib_compile_text, r2["stdout"], timeout=120)
        res["processes"] += 1
        if "raised" in rt:
            import re as _re

            reason = rt["raised"] + ": " + _re.sub(r"\d+", "N", rt.get("msg", ""))[:40]
            res["violations"].append({"sig": {"clause": "hand-off-yields-a-program-like-the-source", "kind": "printed-text-does-not-compile", "reason": reason},
                                      "payload": {**base2, "raised": rt["raised"], "msg": rt.get("msg", "")[:200]}})
        else:
            from collections import Counter as _C

            a_, b_ = effect_ops(lib["ok"]["routines"]), effect_ops(rt["ok"]["routines"])
            lost = _C(a_) - _C(b_)
            gained = _C(b_) - _C(a_)
            if lost:
                # an op that does something is gone, or came back with other parameters
                viol("hand-off-yields-a-program-like-the-source", "effect-ops-differ",
                     {**base2, "only_in_compiled_source": sorted(lost)[:3], "only_after_round_trip": sorted(gained)[:3], "counts": [len(a_), len(b_)]})
            elif gained:
                # every op is still there and some occur more often. For the small fixed programs (templates, special
                # programs: the regression stimuli of repaired defects) the counts are known to be equal on a correct tree
                # and any difference is reported; for generated programs a structuring pass may legitimately print a shared
                # block twice, so this is counted, not judged
                if w["kind"] in ("template", "jumpy"):
                    viol("hand-off-yields-a-program-like-the-source", "effect-ops-differ",
                         {**base2, "only_in_compiled_source": [], "only_after_round_trip": sorted(gained)[:3], "counts": [len(a_), len(b_)]})
                else:
                    res["effect_ops_only_duplicated"] = res.get("effect_ops_only_duplicated", 0) + 1
        # the text printed is what the library gives for the decoded routine set
        dec = copy.deepcopy(r2["decoded"])
        for i, rr in enumerate(dec["routines"]):
            if rr["type"] == "COROUTINE":
                rr["coro"] = r2.get("decoded_coro_by_index", {}).get(str(i))
        if all(rr["type"] != "COROUTINE" or rr["coro"] for rr in dec["routines"]):
            libdec = forkrun(_lib_decompile, dec, timeout=120)
            res["processes"] += 1
            if "ok" in libdec and r2["stdout"] != libdec["ok"]["text"] + "\n":
                viol("exit-0-exactly-on-success", "decompile-exit-0-without-the-complete-text", base2)
    # faults: one simulated process each
    for f in frng.sample(COMPILE_FAULTS, 2 if item["tier"] == "quick" else 4):
        _compile_fault(res, w, f, frng, len(r["stdout"]), len(lib["sm"]), viol, count_exit)
    if r["exit"] == 0:
        _decompile_faults(res, v2.dump(), "out.json", printed if not sp else None, frng, viol, count_exit)
    return res


def _compile_fault(res, w, f, frng, out_len, sm_len, viol, count_exit):
    v = Vfs.load(w["vfs"])
    argv = list(w["argv"])
    faults = []
    fail_after = None
    if f == "settings_missing":
        v.remove("/proj/settings.json")
    elif f == "settings_invalid_json":
        v.write("/proj/settings.json", json.dumps(SETTINGS)[: frng.randint(1, 40)])
    elif f == "settings_key_missing":
        s = copy.deepcopy(SETTINGS)
        del s["settings"][frng.choice(["performance_progress_list_var_name", "dungeon_mode_constants"])]
        v.write("/proj/settings.json", json.dumps(s if frng.random() < 0.7 else {"other": 1}))
    elif f == "settings_dmc_incomplete":
        s = copy.deepcopy(SETTINGS)
        del s["settings"]["dungeon_mode_constants"][frng.choice(["open", "closed", "request", "open_request"])]
        v.write("/proj/settings.json", json.dumps(s))
    elif f == "source_missing":
        v.remove(w["main_abs"])
    elif f == "source_map_dir_missing":
        argv = [a for a in argv]
        if "--source-map" in argv:
            argv[argv.index("--source-map") + 1] = "/proj/nodir/out.sm"
        else:
            argv += ["--source-map", "/proj/nodir/out.sm"]
    elif f == "source_map_enospc":
        if "--source-map" not in argv:
            argv += ["--source-map", "out.sm"]
        faults.append({"call": "write", "path": None, "after_bytes": frng.randrange(0, max(1, sm_len)), "errno": errno.ENOSPC})
    elif f == "stdout_fails":
        fail_after = frng.randrange(0, max(1, out_len))
    elif f == "stdout_closed":
        fail_after = "closed"
    elif f == "settings_eio":
        faults.append({"call": "open", "path": "/proj/settings.json", "nth": 1, "errno": errno.EIO})
    elif f == "source_eio":
        faults.append({"call": "open", "path": w["main_abs"], "nth": 1, "errno": frng.choice([errno.EIO, errno.EACCES])})
    elif f == "import_eio":
        others = [p for p, n in w["vfs"]["nodes"].items() if "f" in n and p.endswith(".exps") and p != w["main_abs"]]
        if not others:
            return
        faults.append({"call": "open", "path": None, "nth": 2 + 1, "errno": errno.EIO})  # settings, source, then the first import
    r = run_cli("explorerscript.cli.compile", argv, v.dump(), faults, fail_after)
    res["processes"] += 1
    fired = bool(r["faults_fired"]) or r["stdout_failed"] or f in ("settings_missing", "settings_invalid_json", "settings_key_missing",
                                                                    "settings_dmc_incomplete", "source_missing", "source_map_dir_missing")
    ent = res["faults"].setdefault("compile:" + f, {"armed": 0, "fired": 0})
    ent["armed"] += 1
    if not fired:
        return  # e.g. compilation failed before the source map was written: nothing was injected, nothing to judge
    ent["fired"] += 1
    count_exit("compile-under-fault", r["exit"])
    if r["exit"] == 0:
        viol("exit-0-exactly-on-success", f"compile-exit-0-under-{f}", {"world": {k: w[k] for k in ("vfs", "kind")}, "argv": argv, "fault": f,
                                                                           "faults": faults, "stdout_fail_after": fail_after, "stderr": r["stderr"][-400:]})


def _decompile_faults(res, vfs_dump, json_arg, printed, frng, viol, count_exit):
    for f in frng.sample(DECOMPILE_FAULTS, 2):
        v = Vfs.load(vfs_dump)
        argv = [json_arg]
        faults = []
        fail_after = None
        path = "/proj/" + json_arg
        raw = v.nodes[path][1].decode("utf-8", "replace")
        if f == "json_missing":
            v.remove(path)
        elif f == "json_invalid":
            v.write(path, raw[: frng.randint(1, max(2, len(raw) - 2))])
        elif f == "json_settings_missing":
            try:
                d = json.loads(raw)
            except Exception:
                continue
            which = frng.choice(["all", "ppl", "dmc"])
            if which == "all":
                del d["settings"]
            elif which == "ppl":
                del d["settings"]["performance_progress_list_var_name"]
            else:
                del d["settings"]["dungeon_mode_constants"]["open"]
            v.write(path, json.dumps(d))
        elif f in ("json_routine_type_invalid", "json_op_without_params"):
            try:
                d = json.loads(raw)
            except Exception:
                continue
            if not d.get("routines"):
                continue
            if f == "json_routine_type_invalid":
                d["routines"][0]["type"] = "NOSUCH"
            else:
                ops = [o for r in d["routines"] for o in r["ops"]]
                if not ops:
                    continue
                del frng.choice(ops)["params"]
            v.write(path, json.dumps(d))
        elif f == "source_map_dir_missing":
            argv += ["--source-map", "/proj/nodir/d.sm"]
        elif f == "source_map_enospc":
            argv += ["--source-map", "d.sm"]
            faults.append({"call": "write", "path": None, "after_bytes": frng.randrange(0, 20), "errno": errno.ENOSPC})
        elif f == "stdout_fails":
            fail_after = frng.randrange(0, 30)
        elif f == "stdout_closed":
            fail_after = "closed"
        elif f == "json_eio":
            faults.append({"call": "open", "path": path, "nth": 1, "errno": errno.EIO})
        r = run_cli("explorerscript.cli.decompile", argv, v.dump(), faults, fail_after)
        res["processes"] += 1
        fired = bool(r["faults_fired"]) or r["stdout_failed"] or f.startswith("json_") and f != "json_eio" or f == "source_map_dir_missing"
        ent = res["faults"].setdefault("decompile:" + f, {"armed": 0, "fired": 0})
        ent["armed"] += 1
        if not fired:
            continue
        ent["fired"] += 1
        count_exit("decompile-under-fault", r["exit"])
        if r["exit"] == 0:
            viol("exit-0-exactly-on-success", f"decompile-exit-0-under-{f}", {"vfs": v.dump(), "argv": argv, "fault": f, "faults": faults,
                                                                                "stdout_fail_after": fail_after, "stderr": r["stderr"][-400:]})


def _only_jumps_differ(a: dict, b: dict) -> bool:
    a, b = _norm_doc(a), _norm_doc(b)
    try:
        if a["settings"] != b["settings"] or len(a["routines"]) != len(b["routines"]):
            return False
        for ra, rb in zip(a["routines"], b["routines"]):
            if {k: v for k, v in ra.items() if k != "ops"} != {k: v for k, v in rb.items() if k != "ops"} or len(ra["ops"]) != len(rb["ops"]):
                return False
            for x, y in zip(ra["ops"], rb["ops"]):
                if x == y:
                    continue
                ji = model.JUMP_PARAM_INDEX.get(x["opcode"])
                if ji is None or x["opcode"] != y["opcode"] or len(x["params"]) != len(y["params"]):
                    return False
                if [p for i, p in enumerate(x["params"]) if i != ji] != [p for i, p in enumerate(y["params"]) if i != ji]:
                    return False
        return True
    except Exception:
        return False


def _doc_diff(a, b) -> str:
    a, b = _norm_doc(a), _norm_doc(b)
    if a.get("settings") != b.get("settings"):
        return "settings differ"
    n = 0
    for i, (ra, rb) in enumerate(zip(a.get("routines", []), b.get("routines", []))):
        for j, (x, y) in enumerate(zip(ra.get("ops", []), rb.get("ops", []))):
            n += 1
            if x != y:
                return f"routine {i} op {j} (position {n}): printed {json.dumps(x)[:160]} expected {json.dumps(y)[:160]}"
        if {k: v for k, v in ra.items() if k != "ops"} != {k: v for k, v in rb.items() if k != "ops"}:
            return f"routine {i} header: printed { {k: v for k, v in ra.items() if k != 'ops'} } expected { {k: v for k, v in rb.items() if k != 'ops'} }"
    return "routine/op count differs"


def _view_diff(a, b) -> str:
    for i, (ra, rb) in enumerate(zip(a, b)):
        if ra[:4] != rb[:4]:
            return f"routine {i} header {ra[:4]} vs {rb[:4]}"
        for j, (x, y) in enumerate(zip(ra[4], rb[4])):
            if x != y:
                return f"routine {i} op {j}: {x} vs {y}"
    return "counts differ"


# ---- real subprocess cross-validation -----------------------------------------------------------------------


def real_pipeline(item: dict) -> dict:
    """The same world materialised in a real temp directory, both commands as real `python -m` processes;
    exit statuses and stdout must equal what the in-process shell observed (validates the stubs)."""
    from simkit.boot import repo_dir

    w = gen_world(item["run_seed"])
    sim = run_cli("explorerscript.cli.compile", w["argv"], w["vfs"])
    res = {"validated": 0, "mismatch": []}
    with tempfile.TemporaryDirectory(prefix="cliworld-") as td:
        for p, n in w["vfs"]["nodes"].items():
            rp = td + p
            if "d" in n:
                os.makedirs(rp, exist_ok=True)
        for p, n in w["vfs"]["nodes"].items():
            rp = td + p
            if "f" in n:
                os.makedirs(os.path.dirname(rp), exist_ok=True)
                with open(rp, "w", encoding="utf-8") as f:
                    f.write(n["f"])
            elif "l" in n:
                os.makedirs(os.path.dirname(rp), exist_ok=True)
                tgt = n["l"]
                os.symlink(td + tgt if tgt.startswith("/") else tgt, rp)
        argv = [(td + a) if a.startswith("/") else a for a in w["argv"]]
        # absolute imports inside sources cannot be relocated: skip worlds that use them
        if any("f" in n and 'import "/' in n["f"] for n in w["vfs"]["nodes"].values()):
            return res
        env = dict(os.environ, PYTHONPATH=repo_dir(), PYTHONDONTWRITEBYTECODE="1", PYTHONWARNINGS="ignore")
        try:
            p = subprocess.run([sys.executable, "-m", "explorerscript.cli.compile"] + argv, cwd=td + "/proj", env=env, capture_output=True, text=True, timeout=120)
        except subprocess.TimeoutExpired:
            res["too_slow"] = 1
            return res
        res["validated"] += 1
        if p.returncode != sim["exit"] or (p.returncode == 0 and p.stdout != sim["stdout"]):
            res["mismatch"].append({"run_seed": item["run_seed"], "real_exit": p.returncode, "sim_exit": sim["exit"], "real_stderr": p.stderr[-300:]})
        if p.returncode == 0:
            with open(td + "/proj/out.json", "w") as f:
                f.write(p.stdout)
            v2 = Vfs.load(w["vfs"])
            v2.write("/proj/out.json", p.stdout)
            sim2 = run_cli("explorerscript.cli.decompile", ["out.json"], v2.dump())
            try:
                p2 = subprocess.run([sys.executable, "-m", "explorerscript.cli.decompile", "out.json"], cwd=td + "/proj", env=env, capture_output=True, text=True, timeout=120)
            except subprocess.TimeoutExpired:
                # the real process runs with the repository's recursion limit (10000): the writer recursion pathology of
                # DESIGN.md 2.2 takes minutes there; nothing to compare
                res["too_slow"] = 1
                return res
            res["validated"] += 1
            if p2.returncode != sim2["exit"] or (p2.returncode == 0 and p2.stdout != sim2["stdout"]):
                res["mismatch"].append({"run_seed": item["run_seed"], "cmd": "decompile", "real_exit": p2.returncode, "sim_exit": sim2["exit"], "real_stderr": p2.stderr[-300:]})
    return res


# ---- the check ----------------------------------------------------------------------------------------------

TIERS = {"quick": {"runs": 1500, "real": 40, "wall_cap": 80.0}, "thorough": {"runs": 40000, "real": 1500, "wall_cap": 1500.0}}


def _any(item):
    return real_pipeline(item) if item.get("real") else run_world(item)


def check(rep, tier: str, master: int, only_idx=None) -> None:
    import time

    cfg = TIERS[tier]
    t0 = time.time()
    items = [{"idx": i, "run_seed": seeds.run_seed(master, ENGINE, i), "tier": tier} for i in range(cfg["runs"])]
    for i, d in enumerate(handbuilt_documents()):
        items.append({"idx": 100_000 + i, "run_seed": seeds.run_seed(master, ENGINE, 100_000 + i), "tier": tier, "document": d})
    for i in range(cfg["real"]):
        items.append({"idx": 200_000 + i, "run_seed": seeds.run_seed(master, ENGINE, i), "tier": tier, "real": True})
    if only_idx is not None:
        items = [it for it in items if it["idx"] in only_idx]
    results = pmap(_any, items, wall_cap=cfg["wall_cap"])
    agg = {"pipelines": 0, "processes": 0, "real_validated": 0, "skipped_wall_cap": 0}
    kinds: dict = {}
    exits: dict = {}
    faults: dict = {}
    distinct = set()
    samples = []
    viols = []
    for it, (st, r) in zip(items, results):
        if st == "skipped":
            agg["skipped_wall_cap"] += 1
            continue
        if st != "ok":
            rep.harness_error(f"item {it['idx']}: {str(r)[:3000]}".replace("\n", " | "))
            continue
        if it.get("real"):
            agg["real_validated"] += r["validated"]
            agg["real_too_slow_skipped"] = agg.get("real_too_slow_skipped", 0) + r.get("too_slow", 0)
            for mm in r["mismatch"]:
                rep.harness_error(f"in-process CLI shell disagrees with a real process: {mm}")
            continue
        agg["pipelines"] += r["pipelines"]
        agg["processes"] += r["processes"]
        kinds[r["kind"].split(":")[0]] = kinds.get(r["kind"].split(":")[0], 0) + 1
        agg["slow_decompile_skipped"] = agg.get("slow_decompile_skipped", 0) + r.get("slow_decompile_skipped", 0)
        agg["handoff_through_pipe"] = agg.get("handoff_through_pipe", 0) + r.get("handoff_through_pipe", 0)
        agg["effect_ops_only_duplicated"] = agg.get("effect_ops_only_duplicated", 0) + r.get("effect_ops_only_duplicated", 0)
        agg["undeliverable_on_legacy_stdout"] = agg.get("undeliverable_on_legacy_stdout", 0) + r.get("undeliverable_on_legacy_stdout", 0)
        for k_, v_ in (r.get("stdout_encodings") or {}).items():
            agg.setdefault("stdout_encodings", {})
            agg["stdout_encodings"][k_] = agg["stdout_encodings"].get(k_, 0) + v_
        for k, v in r["exits"].items():
            exits[k] = exits.get(k, 0) + v
        for k, v in r["faults"].items():
            e = faults.setdefault(k, {"armed": 0, "fired": 0})
            e["armed"] += v["armed"]
            e["fired"] += v["fired"]
        distinct.add((r["kind"], tuple(sorted(r["exits"])), tuple(sorted(r["faults"]))))
        if len(samples) < 4:
            samples.append({"run_seed": r["run_seed"], "kind": r["kind"], "exits": r["exits"], "faults": sorted(r["faults"])})
        for v in r["violations"]:
            v["item"] = {k: it[k] for k in it if k != "document"}
            if "document" in it:
                v["item"]["document_name"] = it["document"][0]
            viols.append(v)
    seen = set()
    from simkit.report import match_finding

    for v in viols:
        key = json.dumps(v["sig"], sort_keys=True)
        if key in seen or match_finding(rep.findings, v["sig"]) is not None:
            rep.violation(v["sig"], {}, "")
            continue
        seen.add(key)
        rep.violation(v["sig"], {"engine": ENGINE, "item": v["item"], **v["payload"]}, f"{v['sig']}")
    wall = time.time() - t0
    rep.coverage = {
        "evaluations": agg["processes"],
        "distinct_nontrivial": len(distinct),
        "rule": "one evaluation = one simulated CLI process (real module code under runpy in a forked child; argv, cwd, file system and "
                "stdout/stderr are seams) or one library reference call. A pipeline = compile command -> its stdout as a file -> "
                "decompile command, plus fault runs (one fault per process). distinct_nontrivial = distinct (world kind, set of "
                "observed exit statuses, set of fault kinds that fired).",
        "samples": samples or [{"note": "nothing ran"}],
        **agg,
        "world_kinds": kinds,
        "exit_statuses": exits,
        "fault_kinds": faults,
        "traces_validated_against_impl": agg["real_validated"],
        "runs_per_hour": int(agg["pipelines"] / max(wall, 1e-6) * 3600),
        "simulated_time": f"no clock; logical time = {agg['processes']} simulated processes",
        "real_components": ["explorerscript.cli.compile / explorerscript.cli.decompile module code", "compiler, decompiler", "argparse, json"],
        "stub_components": ["process shell (argv, exit status from SystemExit / uncaught exception)", "stdout/stderr", "file system (VFS)"],
    }
    rep.assumptions = [
        "the in-process shell derives the exit status the way CPython does (cross-validated against real `python -m` processes)",
        "a position mark coordinate may be printed as 10 or \"10\" (the docs show both)",
        "'behaves like the source' beyond equality of the decoded and the compiled routine set is C02 (not decided here)",
    ]


def replay(payload: dict) -> dict:
    item = dict(payload["item"])
    if "document_name" in item:
        item["document"] = next(d for d in handbuilt_documents() if d[0] == item["document_name"])
    r = run_world(item)
    for v in r["violations"]:
        if v["sig"] == payload["signature"]:
            return {"sig": v["sig"]}
    return {"sig": r["violations"][0]["sig"] if r["violations"] else None}
