"""C06 - the decompiler always answers; its SsbScript fallback is marked and exact (DESIGN.md 5.3).

Two configurations, kept apart:
  fault-free : convert() must return (text, SourceMap) for every well-formed routine set; a *natural*
               fallback must satisfy the recovery contract.
  injected   : one consistency assertion inside the dynamic extent of convert()'s try fails at a chosen
               execution (AssertionError raised from the trace function on the assert's line event);
               convert() must return marked SsbScript that compiles back to the input op for op.
"""
from __future__ import annotations

import copy
import random

from simkit import model, seeds, sut, trace
from simkit.pool import forkrun, HarnessError
from gen import exps, ssb

ENGINE = "faultworld"

# String contents for which print->parse is not the identity on the pinned tree are a pure-input matter
# (C04, not claimed here); the fallback *contract* is exercised with contents that do round-trip.
SAFE_WORDS = ["Hello", "World", "it's", 'say "hi"', "[CN]name[CR]", "two  spaces", "ünï", "100%", "{x}", "", "#", "//nocomment", "/*nc*/",
              "a\x0bb", "line\u2028sep", "nel\x85x", "fs\x1cgs\x1d"]


def gen_input(idx: int, run_seed: int) -> dict:
    """-> {'doc': routine set, 'origin': …} (pure function of the seed; compiles in a fork)."""
    hb = ssb.handbuilt()
    if idx < len(hb):
        name, doc = hb[idx]
        _vary_coroutine_table(doc, seeds.stream(run_seed, "corotable"))
        return {"doc": doc, "origin": {"kind": "handbuilt", "name": name}}
    # inputs are kept below ~400 ops: every injected run decompiles the whole set again, and macro-heavy "large"
    # programs expand to well over a thousand ops
    for attempt, sizes in enumerate((["small", "small", "medium", "medium", "large"], ["small", "medium"], ["small"])):
        rng = seeds.stream(run_seed, f"program{attempt}" if attempt else "program")
        size = rng.choice(sizes)
        saved = exps.WORDS
        exps.WORDS = SAFE_WORDS
        try:
            k = exps.swarm_knobs(rng, size)
            src = exps.ExpsGen(rng, k).program()
        finally:
            exps.WORDS = saved
        src = _strip_multiline_indent(src)
        out = sut.compile_exps(src)
        if "raised" in out:
            raise HarnessError(f"generator produced a rejected program: {out} seed={run_seed}")
        if sum(len(r["ops"]) for r in out["ok"]["routines"]) <= 400:
            break
    doc = {"routines": out["ok"]["routines"]}
    mrng = seeds.stream(run_seed, "mutate")
    doc2, log = ssb.mutate(doc, mrng)
    if _vary_coroutine_table(doc2, seeds.stream(run_seed, "corotable")):
        log = log + ["coroutine table " + doc2["coro_table"]["order"] + ("+extra" if doc2["coro_table"]["extra"] else "")]
    return {"doc": doc2, "origin": {"kind": "generated", "size": size, "mutations": log, "source_chars": len(src)}}


def _strip_multiline_indent(src: str) -> str:
    return src


def _vary_coroutine_table(doc: dict, rng) -> bool:
    """The table of coroutine names is a mapping id -> name; callers pass it in any order and with entries for
    coroutines that are not in this routine set (the game's complete table)."""
    n = sum(1 for r in doc["routines"] if r["type"] == "COROUTINE")
    if n == 0 or rng.random() < 0.3:
        return False
    extra = [[len(doc["routines"]) + 2 + i, f"CORO_UNUSED_{i}"] for i in range(rng.choice([0, 1, 3]))]
    doc["coro_table"] = {"order": rng.choice(["reversed", "by_name", "reversed"]), "extra": extra}
    return True


def _fast_enough(doc: dict) -> bool:
    sut.quiet_logging()
    return sut.decompiles_in_time(doc)


def _convert(doc: dict) -> dict:
    sut.quiet_logging(_log_level(doc))
    return sut.decompile_exps(doc)


def _log_level(doc: dict):
    """DEBUG logging is an environment knob (the DEBUG paths format ops and graphs); derived from the input so that a
    replay uses the same level."""
    import logging

    return logging.DEBUG if seeds.H("loglevel", model.canon({"routines": doc["routines"]})) % 8 == 0 else logging.WARNING


def _convert_traced(doc: dict, target) -> dict:
    sut.quiet_logging(_log_level(doc))
    tr = trace.AssertTracer(tuple(target) if target else None)
    d, _ = sut.new_decompiler(doc)
    try:
        text, sm = tr.run(d.convert)
        out = {"ok": model.decompile_digest(text, sm)}
    except BaseException as e:
        if isinstance(e, (KeyboardInterrupt, SystemExit)):
            raise
        out = sut.raised(e)
    out["fired"] = tr.fired
    out["executions"] = [[trace.rel(f), ln] for f, ln in tr.executions]
    return out


def _judge(doc: dict, out: dict, injected: bool) -> tuple[str, dict | None]:
    """-> (outcome class, violation signature or None). Runs in a fork (it compiles the fallback)."""
    if "raised" in out:
        return "raised", {"clause": "returns-instead-of-raising", "exc": out["raised"], "where": out["where"], "injected": injected}
    text = out["ok"]["text"]
    is_fb = text.split("\n", 1)[0].strip() == sut.MARKER
    if injected and not is_fb:
        return "unmarked", {"clause": "fallback-is-marked", "injected": True}
    if is_fb:
        diffs = sut.fallback_differences(doc, text)
        if diffs:
            kind = "compiles" if diffs[0].startswith("fallback text does not compile") else "op-for-op"
            return "inexact", {"clause": f"fallback-{kind}", "injected": injected, "diff": diffs[0][:160]}
        mdiffs = sut.fallback_map_differences(doc, text, out["ok"]["source_map"])
        if mdiffs:
            return "inexact", {"clause": "fallback-source-map-describes-the-text", "injected": injected, "diff": mdiffs[0][:160]}
        return "fallback", None
    return "structured", None


def judge_in_fork(doc, out, injected):
    return forkrun(_judge_quiet, doc, out, injected, timeout=60)


def _judge_quiet(doc, out, injected):
    sut.quiet_logging()
    return _judge(doc, out, injected)


def _case_in_fork(doc: dict, target) -> dict:
    """convert() (fault-free or with the injected fault) and the judgement of its answer, in one simulated process."""
    if target is None:
        out = _convert(doc)
    else:
        out = _convert_traced(doc, target)
        if not out.get("fired"):
            return {"class": "not-reached", "sig": None, "out": out}
    cls, sig = _judge(doc, out, target is not None)
    return {"class": cls, "sig": sig, "out": out}


def run_case(doc: dict, target) -> dict:
    """One simulated execution: fault-free (target None) or with one injected assertion failure."""
    return forkrun(_case_in_fork, doc, target, timeout=120)


def pick_targets(executions: list, rng: random.Random, tier: str) -> list:
    """Which (site, occurrence) pairs to fail. executions: ordered [[file, line], ...]."""
    occ: dict[tuple, int] = {}
    all_t = []
    for f, ln in executions:
        k = (f, ln)
        occ[k] = occ.get(k, 0) + 1
        all_t.append((f, ln, occ[k]))
    if tier == "thorough":
        if len(all_t) <= 400:
            return all_t
        first_last = {(f, ln, 1) for (f, ln) in occ} | {(f, ln, n) for (f, ln), n in occ.items()}
        rest = [t for t in all_t if t not in first_last]
        return sorted(first_last) + rng.sample(rest, max(0, 400 - len(first_last)))
    chosen = {(f, ln, 1) for (f, ln) in occ} | {(f, ln, n) for (f, ln), n in occ.items()}
    rest = [t for t in all_t if t not in chosen]
    extra = rng.sample(rest, min(len(rest), 6))
    return sorted(chosen) + extra


def run_item(item: dict) -> dict:
    """Phase 1 pmap unit: one input, its fault-free run and its dry (recording) run. Executed by a shard
    worker; every execution of system code happens in a fork of that worker."""
    idx, run_seed, tier = item["idx"], item["run_seed"], item["tier"]
    res = {"idx": idx, "run_seed": run_seed, "violations": [], "classes": {}, "sites": [], "targets": []}
    if "doc" in item:
        inp = {"doc": item["doc"], "origin": {"kind": "replay"}}
    else:
        inp = forkrun(gen_input, idx, run_seed, timeout=120)
    doc = inp["doc"]
    ok, why = ssb.well_formed(doc)
    res["origin"] = inp["origin"]
    res["doc"] = doc
    res["n_ops"] = sum(len(r["ops"]) for r in doc["routines"])
    if not ok:
        res["skipped"] = why
        return res
    if not forkrun(_fast_enough, doc, timeout=60):
        res["skipped"] = "structuring needs more than 5 s of CPU (path-enumeration pathology, DESIGN.md 2.2)"
        return res
    # 1. fault-free configuration
    nat = run_case(doc, None)
    _note(res, nat, None, doc, inp["origin"])
    res["natural"] = nat["class"]
    # 2. dry traced run: which assertions execute inside the try, in which order
    dry = forkrun(_convert_traced, doc, None, timeout=120)
    if ("ok" in dry) != ("ok" in nat["out"]) or ("ok" in dry and dry["ok"]["text"] != nat["out"]["ok"]["text"]):
        raise HarnessError(f"tracing changed the outcome for seed {run_seed}")
    execs = dry["executions"]
    res["sites"] = sorted({(f, ln) for f, ln in execs})
    res["n_exec"] = len(execs)
    if item.get("targets") is not None:
        res["targets"] = [tuple(t) for t in item["targets"]]
    else:
        res["targets"] = pick_targets(execs, seeds.stream(run_seed, "targets"), tier)
    return res


def _note(res, case, target, doc, origin):
    c = case["class"]
    res["classes"][c] = res["classes"].get(c, 0) + 1
    if case["sig"] is not None:
        res["violations"].append({"sig": case["sig"], "doc": doc, "target": target, "origin": origin,
                                  "out": _short(case["out"])})


def run_chunk(item: dict) -> dict:
    """Phase 2 pmap unit: a chunk of injected runs on one input (fault-injecting configuration)."""
    import os
    from simkit.boot import repo_dir

    doc = item["doc"]
    res = {"idx": item["idx"], "violations": [], "classes": {}, "injected": 0, "not_reached": 0, "fired_sites": []}
    for f, ln, n in item["targets"]:
        absf = os.path.realpath(os.path.join(repo_dir(), f))
        case = run_case(doc, (absf, ln, n))
        if case["class"] == "not-reached":
            res["not_reached"] += 1
            continue
        res["injected"] += 1
        res["fired_sites"].append((f, ln))
        _note(res, case, [f, ln, n], doc, item["origin"])
    res["fired_sites"] = sorted(set(res["fired_sites"]))
    return res


def _short(out: dict) -> dict:
    o = {k: v for k, v in out.items() if k != "executions"}
    if "ok" in o:
        o = dict(o)
        o["ok"] = {"text_head": o["ok"]["text"][:400]}
    return o


# ---- minimisation -----------------------------------------------------------------------------


def _drop_op(doc: dict, ri: int, oi: int) -> dict | None:
    d = copy.deepcopy(doc)
    ops = d["routines"][ri]["ops"]
    victim = ops[oi]["off"]
    # jumps to the dropped op go to the op after it (or before, at the end)
    flat = [o for r in d["routines"] for o in r["ops"]]
    pos = flat.index(ops[oi])
    repl = flat[pos + 1]["off"] if pos + 1 < len(flat) else (flat[pos - 1]["off"] if pos > 0 else None)
    del ops[oi]
    for r in d["routines"]:
        for o in r["ops"]:
            ji = model.JUMP_PARAM_INDEX.get(o["op"])
            if ji is not None and ji < len(o["params"]) and o["params"][ji] == victim:
                if repl is None:
                    return None
                o["params"][ji] = repl
    return d


def minimise(doc: dict, target, sig: dict, budget: int = 150) -> tuple[dict, list | None]:
    """Greedy shrinking: drop routines, then ops, while the same violation clause (and exception type /
    site) persists and the input stays well-formed."""

    def same(d, t):
        nonlocal budget
        if budget <= 0:
            return False
        budget -= 1
        ok, _ = ssb.well_formed(d)
        if not ok:
            return False
        try:
            case = run_case(d, _abs_target(t))
        except HarnessError:
            return False
        s = case["sig"]
        return s is not None and s.get("clause") == sig.get("clause") and s.get("exc") == sig.get("exc") and s.get("where") == sig.get("where")

    cur = doc
    if target is not None and target[2] > 1 and same(cur, [target[0], target[1], 1]):
        target = [target[0], target[1], 1]
    changed = True
    while changed and budget > 0:
        changed = False
        # whole routines (never the first)
        for ri in range(len(cur["routines"]) - 1, 0, -1):
            d = copy.deepcopy(cur)
            del d["routines"][ri]
            if same(d, target):
                cur = d
                changed = True
        for ri in range(len(cur["routines"])):
            oi = len(cur["routines"][ri]["ops"]) - 1
            while oi >= 0 and budget > 0:
                if oi < len(cur["routines"][ri]["ops"]):
                    d = _drop_op(cur, ri, oi)
                    if d is not None and same(d, target):
                        cur = d
                        changed = True
                oi -= 1
    return cur, target


def _abs_target(t):
    if t is None:
        return None
    import os
    from simkit.boot import repo_dir

    return (os.path.realpath(os.path.join(repo_dir(), t[0])), t[1], t[2])


def replay(payload: dict) -> dict:
    """Re-run one recorded case in fresh forks; returns the case result."""
    return run_case(payload["input"], _abs_target(payload.get("fault")))


# ---- the check ---------------------------------------------------------------------------------

TIERS = {"quick": {"inputs": 480, "wall_cap": 80.0}, "thorough": {"inputs": 2600, "wall_cap": 1500.0}}


def _warm():
    """C06 is indifferent to parser-cache warmth (that is C11's subject): warm the SsbScript parser once
    per shard worker so that the fallback recompilation in every fork is cheap."""
    sut.quiet_logging()
    trace.prepare()
    for name, doc in ssb.handbuilt()[:3]:
        o = sut.decompile_ssbs(doc)
        if "ok" in o:
            sut.compile_exps(sut.MARKER + "\n" + o["ok"]["text"])


_warmed = False


def _ensure_warm():
    global _warmed
    if not _warmed:
        _warm()
        _warmed = True


def run_item_warm(item):
    _ensure_warm()
    return run_item(item)


def run_chunk_warm(item):
    _ensure_warm()
    return run_chunk(item)


CHUNK = 12


def check(rep, tier: str, master: int, only_idx=None) -> None:
    import time
    from simkit.pool import pmap

    cfg = TIERS[tier]
    n = cfg["inputs"]
    items = [{"idx": i, "run_seed": seeds.run_seed(master, ENGINE, i), "tier": tier} for i in range(n)]
    if only_idx is not None:
        items = [it for it in items if it["idx"] in only_idx]
    t0 = time.time()
    results = pmap(run_item_warm, items, wall_cap=cfg["wall_cap"] * 0.4)
    agg = {"inputs": 0, "skipped_not_well_formed": 0, "not_run_wall_cap": 0, "natural": {}, "classes": {}, "injected": 0,
           "not_reached": 0, "ops_total": 0, "assert_executions": 0, "chunks_not_run_wall_cap": 0}
    site_exec: dict = {}
    site_fired: dict = {}
    pairs = set()
    samples = []
    viols = []
    chunks = []
    by_idx = {}
    for it, (st, r) in zip(items, results):
        if st == "skipped":
            agg["not_run_wall_cap"] += 1
            continue
        if st != "ok":
            rep.harness_error(f"item {it['idx']} seed {it['run_seed']}: {r}")
            continue
        if "skipped" in r:
            if r["skipped"].startswith("structuring"):
                agg["skipped_too_slow"] = agg.get("skipped_too_slow", 0) + 1
            else:
                agg["skipped_not_well_formed"] += 1
            continue
        agg["inputs"] += 1
        agg["ops_total"] += r["n_ops"]
        agg["assert_executions"] += r.get("n_exec", 0)
        agg["natural"][r["natural"]] = agg["natural"].get(r["natural"], 0) + 1
        for c, k in r["classes"].items():
            agg["classes"][c] = agg["classes"].get(c, 0) + k
        r["shape"] = (r["origin"].get("kind"), tuple(sorted(set(m.split(" ")[0] for m in r["origin"].get("mutations", [])))), r["natural"])
        r["injected"] = 0
        by_idx[r["idx"]] = r
        for s in r["sites"]:
            site_exec[tuple(s)] = site_exec.get(tuple(s), 0) + 1
        viols += r["violations"]
        ts = r["targets"]
        for k in range(0, len(ts), CHUNK):
            chunks.append({"idx": r["idx"], "doc": r["doc"], "origin": r["origin"], "targets": ts[k:k + CHUNK]})
    # interleave chunks of different inputs so that a wall cap cuts all inputs evenly
    chunks.sort(key=lambda c: seeds.H(master, "chunk-order", c["idx"], c["targets"][0]))
    left = max(5.0, cfg["wall_cap"] - (time.time() - t0))
    cres = pmap(run_chunk_warm, chunks, wall_cap=left)
    for ch, (st, r) in zip(chunks, cres):
        if st == "skipped":
            agg["chunks_not_run_wall_cap"] += 1
            continue
        if st != "ok":
            rep.harness_error(f"chunk of input {ch['idx']}: {r}")
            continue
        base = by_idx[r["idx"]]
        for c, k in r["classes"].items():
            agg["classes"][c] = agg["classes"].get(c, 0) + k
        agg["injected"] += r["injected"]
        base["injected"] += r["injected"]
        agg["not_reached"] += r["not_reached"]
        for s in r["fired_sites"]:
            site_fired[tuple(s)] = site_fired.get(tuple(s), 0) + 1
            pairs.add((tuple(s), base["shape"]))
        viols += r["violations"]
    for r in by_idx.values():
        if len(samples) < 4 and r["injected"]:
            samples.append({"run_seed": r["run_seed"], "origin": r["origin"], "ops": r["n_ops"], "natural": r["natural"],
                            "assert_executions": r.get("n_exec"), "injected_runs": r["injected"],
                            "first_targets": [list(t) for t in r["targets"][:3]]})
    # minimise + replay each distinct violation signature once
    seen = set()
    t_min0 = time.time()
    for v in viols:
        # one report per (clause, exception, place); the injected site is detail, not identity
        key = (v["sig"].get("clause"), v["sig"].get("exc"), v["sig"].get("where"), v["sig"].get("injected"))
        from simkit.report import match_finding

        if match_finding(rep.findings, _sig_public(v["sig"])) is not None:
            rep.violation(_sig_public(v["sig"]), {}, "")
            continue
        if key in seen:
            continue
        seen.add(key)
        try:
            # minimisation has a wall budget of its own: a change that breaks everything must not stall the report
            budget = 150 if time.time() - t_min0 < 45 else 0
            mdoc, mtarget = minimise(v["doc"], v["target"], v["sig"], budget=budget)
            again = run_case(mdoc, _abs_target(mtarget))
            if again["sig"] is None or again["sig"].get("clause") != v["sig"].get("clause"):
                mdoc, mtarget = v["doc"], v["target"]
                again = run_case(mdoc, _abs_target(mtarget))
            if again["sig"] is None:
                rep.harness_error(f"violation did not replay: {v['sig']}")
                continue
            sig = again["sig"]
        except HarnessError as e:
            rep.harness_error(f"minimisation failed: {e}")
            mdoc, mtarget, sig, again = v["doc"], v["target"], v["sig"], {"out": v["out"]}
        what = f"{sig.get('clause')}: " + (f"{sig.get('exc')} in {sig.get('where')}" if sig.get("exc") else sig.get("diff", "")) + \
               (f" after injected assertion failure at {mtarget}" if mtarget else " (fault-free)")
        rep.violation(_sig_public(sig), {"engine": ENGINE, "input": mdoc, "fault": mtarget, "origin": v["origin"],
                                         "observed": _short(again["out"]) if "out" in again else None}, what)
    all_sites = trace.assert_sites()
    from simkit.boot import repo_dir
    import os

    n_all = sum(len(v) for v in all_sites.values())
    wall = time.time() - t0
    runs = agg["inputs"] * 2 + agg["injected"]
    rep.coverage = {
        "evaluations": runs,
        "distinct_nontrivial": len(pairs),
        "rule": "one evaluation = one simulated process (fork of a cold snapshot) running convert() on a well-formed routine set, "
                "fault-free, traced-dry, or with ONE injected AssertionError at a chosen execution of an `assert` line inside "
                "convert()'s try. distinct_nontrivial = distinct (assert site, input shape class) pairs at which the fault "
                "actually fired and the recovery contract was judged; shape class = (origin, mutator kinds, natural outcome).",
        "samples": samples or [{"note": "no injected run finished"}],
        "inputs": agg["inputs"],
        "inputs_not_well_formed_skipped": agg["skipped_not_well_formed"],
        "inputs_too_slow_skipped": agg.get("skipped_too_slow", 0),
        "inputs_not_run_wall_cap": agg["not_run_wall_cap"],
        "injection_chunks_not_run_wall_cap": agg["chunks_not_run_wall_cap"],
        "input_ops_total": agg["ops_total"],
        "natural_outcomes": agg["natural"],
        "outcome_classes": agg["classes"],
        "fault_kinds": {"assertion_failure_in_try": {"armed": agg["injected"] + agg["not_reached"], "fired": agg["injected"]}},
        "assert_sites_in_tree": n_all,
        "assert_sites_executed_inside_try": len(site_exec),
        "assert_sites_fired": len(site_fired),
        "assert_site_fire_counts": {f"{f}:{ln}": k for (f, ln), k in sorted(site_fired.items())},
        "assert_line_executions_recorded": agg["assert_executions"],
        "runs_per_hour": int(runs / max(wall, 1e-6) * 3600),
        "simulated_time": "no clock in this system; logical time = assert-line executions recorded + processes run",
        "real_components": ["explorerscript (decompiler, SsbScript decompiler, both compilers)", "igraph", "antlr4 runtime"],
        "stub_components": ["none (the fault is raised from the trace function)"],
        "exhaustive": False,
    }
    rep.assumptions = [
        "sys.settrace line events fire on the first line of every executed `assert` statement",
        "inputs restricted to the property's well-formedness clause (gen.ssb.well_formed)",
        "string parameter contents restricted to those whose print/parse round trip is the identity (C04 is not claimed)",
        "parser-cache warmth does not matter for this property (workers are warmed)",
    ]


def _sig_public(sig: dict) -> dict:
    return {k: v for k, v in sig.items() if k in ("clause", "exc", "where", "injected")}
