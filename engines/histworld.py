"""histworld - C11: results depend only on the input, not on what was processed before (DESIGN.md 5.1).

One long-lived simulated process P (a fork of the cold snapshot) hosts what a tool like the SkyTemple
debugger hosts: reused compiler instances, decompilers per request, the SsbScript pair, the CLI's JSON
decoding functions, a project on the VFS. A seeded history of operations - including crash points
inside calls, GC events, object lifetimes, simulated id() reuse, log levels and restarts - is run
against it; every un-faulted operation must produce exactly the digest the same operation produces
alone in a pristine process.
"""
from __future__ import annotations

import copy
import gc
import json
import logging
import os
import random
import subprocess
import sys
import weakref

from simkit import model, seeds, sut, trace
from simkit.pool import forkrun, HarnessError, pmap
from simkit.vfs import Vfs
from gen import exps, ssb, macrolib

ENGINE = "histworld"

INVALID_TEXTS = [
    "def 0 { break; end; }",
    "def 0 { a(); jump @nowhere; end; }",
    "def 0 { switch ($A) { case 1: a(); case 2: } end; }",
    "macro m($a, $b) { x($a, $b); }\ndef 0 { pre(); ~m(1); end; }",
    "def 0 { a(; }",
    "def 0 { if ($A == 1) { b(); } ~nomacro(); end; }",
    'import "./gone.exps";\ndef 0 { a(); end; }',
    "def 0 { message_SwitchTalk ($A) { case 1: a(); } end; }",
    "//?: is-ssb-script: true\ndef 0 {\n    a(;\n}\n",
    "//?: is-ssb-script: true\ndef 0 {\n    a();\n    Jump(@nowhere);\n}\n",
    "//?: is-ssb-script: true\ndef 0 {\n    a();\n    End();\n}\ndef 1 for thing(2) {\n    leaked_op(1);\n    End();\n}\n",
    "//?: is-ssb-script: true\ndef 0 {\n    @l;\n    a();\n    Move<actor 2>(3, @l);\n}\n",
]
# with-blocks around statements that are not plain operations (the writer of such blocks keeps per-block state)
CTX_SRC = ("def 0 {\n    with (actor 1) {\n        $A = 1;\n    }\n    x();\n    with (object OBJ_2) {\n        clear $B;\n    }\n"
           "    if ($C == 1) {\n        with (performer 3) {\n            $C[1] = 1;\n        }\n    }\n    with (actor ACTOR_P) {\n        y(1);\n    }\n    end;\n}\n"
           "def 1 for actor 2 {\n    with (object 0) {\n        init $D;\n    }\n    with (performer 1) {\n        dungeon_mode(3) = DMODE_OPEN;\n    }\n    hold;\n}\n")
SWITCH_ONLY_SRC = "def 0 {\n    switch ($A) {\n        case 1:\n            a();\n            break;\n        case 2:\n            b();\n            break;\n    }\n    c();\n    end;\n}\n"


# ---- inputs ------------------------------------------------------------------------------------------

# multi-line strings in every position a parameter can be printed from (plain op, switch header op, case menu, message
# switch cases), at several nesting depths: what a printer's scratch state (indent) would show up in
STRINGY_SRC = (
    "def 0 {\n    say({english='one\\ntwo', german='eins'}, 'a\\nb');\n"
    "    switch (message_SwitchMenu2(Position<'m', 1, 2>, {english='head\\nline'})) {\n"
    "        case menu({english='yes\\nplease'}):\n            if ($A == 1) {\n                deep('x\\ny', {english='d1\\nd2'});\n            }\n            break;\n"
    "        case menu('no\\nthanks'):\n            hold;\n    }\n"
    "    message_SwitchTalk ($T) {\n        case 1:\n            {english='m1\\nm2'}\n        default:\n            'p\\nq'\n    }\n"
    "    switch (ProcessSpecial(1, 'sp\\nec')) {\n        case 1:\n            end;\n    }\n    end;\n}\n"
)

LOOP_FAMILY_SRC = [
    "def 0 {\n    start(0);\n    if ($C == 1) {\n        x(1);\n    }\n    mid(1);\n    forever {\n        d(1);\n        if ($Z == 2) {\n            break_loop;\n        }\n        e(2);\n    }\n    fin(9);\n    end;\n}\n",
    "def 0 {\n    start(0);\n    if ($C == 1) {\n        jump @out;\n    }\n    mid(1);\n    forever {\n        d(1);\n        if ($Z == 2) {\n            break_loop;\n        }\n        e(2);\n    }\n    nop(0);\n    @out;\n    fin(9);\n    end;\n}\n",
    "def 0 {\n    start(0);\n    switch ($C) {\n        case 1:\n            x(1);\n            break;\n        case 2:\n            y(1);\n            break;\n    }\n    while ($Z < 3) {\n        d(1);\n        e(2);\n    }\n    fin(9);\n    end;\n}\n",
]


def cli_json_of(doc: dict) -> dict:
    """The routine set as a docs/cli_api_usage.rst document: no offsets, jump parameters are 1-based
    positions counted across all routines."""
    pm = model.position_map(doc)
    routines = []
    for r in doc["routines"]:
        ops = []
        for o in r["ops"]:
            params = []
            ji = model.JUMP_PARAM_INDEX.get(o["op"])
            for i, p in enumerate(o["params"]):
                if isinstance(p, int):
                    params.append(pm[p] + 1 if i == ji and p in pm else p)
                elif p["t"] == "fp":
                    params.append({"type": "FIXED_POINT", "value": p["v"]})
                elif p["t"] == "const":
                    params.append({"type": "CONSTANT", "value": p["v"]})
                elif p["t"] == "str":
                    params.append({"type": "CONST_STRING", "value": p["v"]})
                elif p["t"] == "lang":
                    params.append({"type": "LANG_STRING", "value": {k: v for k, v in p["v"]}})
                elif p["t"] == "pos":
                    name, xo, yo, xr, yr = p["v"]
                    params.append({"type": "POSITION_MARK", "value": {"name": name, "x": f"{xr}{'.5' if xo > 1 else ''}", "y": f"{yr}{'.5' if yo > 1 else ''}"}})
            ops.append({"opcode": o["op"], "params": params})
        if r["type"] == "COROUTINE":
            routines.append({"type": "COROUTINE", "name": r["coro"], "ops": ops})
        elif r["type"] == "GENERIC":
            routines.append({"type": "GENERIC", "ops": ops})
        else:
            routines.append({"type": r["type"], "target_id": r["linked_to_name"] if r["linked_to_name"] else r["linked_to"], "ops": ops})
    return {"settings": {"performance_progress_list_var_name": sut.PPL,
                         "dungeon_mode_constants": {"open": "DMODE_OPEN", "closed": "DMODE_CLOSED", "request": "DMODE_REQUEST", "open_request": "OPEN_AND_REQUEST"}},
            "routines": routines}


def make_pool(pool_seed: int, sizes=("small", "small", "medium", "medium", "large")) -> dict:
    """Inputs of one batch of histories (pure function of the seed; runs in a fork: it compiles)."""
    sut.quiet_logging()
    rng = seeds.stream(pool_seed, "pool")
    texts = []
    docs = []
    for i in range(rng.randint(3, 5)):
        size = rng.choice(list(sizes))
        k = exps.swarm_knobs(rng, size)
        if i == 0:
            k["features"] = list(exps.ALL_FEATURES)
        src = exps.ExpsGen(rng, k).program()
        texts.append({"kind": "exps", "src": src, "file": f"/proj/SCRIPT/t{i}.exps"})
        o = sut.compile_exps(src)
        if "ok" in o:
            d = {"routines": o["ok"]["routines"]}
            if rng.random() < 0.5:
                d, _ = ssb.mutate(d, rng)
            if not any(r["type"] == "COROUTINE" and not r["coro"] for r in d["routines"]):
                docs.append(d)
    hb = ssb.handbuilt()
    for name, d in rng.sample(hb, 2):
        docs.append(d)
    docs.append(next(d for n, d in hb if n == "switch_shared_nonadjacent_case_body"))
    # families: same ops / sizes, other jump targets (what a weakly keyed memo would confuse with the original)
    families = []
    for d in list(docs[:2]):
        sib = ssb.sibling(d, rng)
        if sib is not None:
            families.append([docs.index(d), len(docs)])
            docs.append(sib)
    # a loop family: a routine with a branch before a loop, and the same routine with that branch entering the loop body
    o = sut.compile_exps(LOOP_FAMILY_SRC[rng.randrange(len(LOOP_FAMILY_SRC))])
    if "ok" in o:
        base = {"routines": o["ok"]["routines"]}
        fam = [len(docs)]
        docs.append(base)
        for _ in range(2):
            sib = ssb.sibling(base, rng, mutators=[ssb.m_jump_into_loop])
            if sib is not None and sib not in docs:
                fam.append(len(docs))
                docs.append(sib)
        families.append(fam)
    for src_ in (STRINGY_SRC, SWITCH_ONLY_SRC, CTX_SRC):
        o = sut.compile_exps(src_)
        if "ok" in o:
            docs.append({"routines": o["ok"]["routines"]})
    # deeply nested routine sets (17-22 block levels, a multi-line string at the bottom): whatever is prepared per indent
    # level - lazily, on first use - is first used by these
    for n_ in rng.sample([17, 19, 22], 2):
        src_ = ("def 0 {\n" + "".join(f"if ($V == {i_}) {{\nd{i_}();\n" for i_ in range(n_)) + "deep('a\\nb', {english='e\\nf', german='g'});\n"
                + "}\n" * n_ + "end;\n}\n")
        o = sut.compile_exps(src_)
        if "ok" in o:
            docs.append({"routines": o["ok"]["routines"]})
    # routine sets that are NOT well formed (a routine cut off right after a branch: no ending opcode). They are legitimate
    # predecessors in a history - the call fails over to the fallback from inside the graph passes, after it has already
    # analysed the routines before - and are only ever used as such
    abort_family = []
    for pads in rng.sample([0, 1, 2, 3], 2):
        o = sut.compile_exps("def 0 {\n" + "    pad();\n" * pads + "    if ($SCENARIO_MAIN == 1) {\n        a();\n    } else {\n        b();\n    }\n    c();\n    end;\n}\n"
                             "def 1 {\n    d();\n    if ($SCENARIO_MAIN == 2) {\n        e();\n    }\n    end;\n}\n")
        if "ok" in o:
            d = {"routines": o["ok"]["routines"]}
            r1 = d["routines"][1]["ops"]
            bi = next((i for i, x in enumerate(r1) if x["op"].startswith("Branch")), None)
            if bi is not None:
                del r1[bi + 1:]
                r1[bi]["params"][-1] = r1[0]["off"]
                abort_family.append(len(docs))
                docs.append(d)
    # switch-only routines whose switch sits behind 1..4 plain ops (its edges get other indices): the one pass that
    # searches a graph without clearing the memo first is the switch pass
    switch_family = []
    o = sut.compile_exps("def 0 {\n    switch ($SCENARIO_MAIN) {\n        case 1:\n        default:\n            break;\n    }\n    c();\n    end;\n}\n")
    if "ok" in o:
        switch_family.append(len(docs))
        docs.append({"routines": o["ok"]["routines"]})
    for k_ in rng.sample([1, 2, 3, 4], 2):
        o = sut.compile_exps(SWITCH_ONLY_SRC.replace("def 0 {\n", "def 0 {\n" + "".join(f"    lead{i}();\n" for i in range(k_))))
        if "ok" in o:
            switch_family.append(len(docs))
            docs.append({"routines": o["ok"]["routines"]})
    fam = []
    for d in ssb.second_entry_family():
        fam.append(len(docs))
        docs.append(d)
    families.append(fam)
    # a multi-file project on the VFS, with several scripts at different directory depths that import the same
    # macro files (a result cached for one script must not be handed to another)
    lib = macrolib.gen_lib(rng)
    w = macrolib.gen_world(lib, rng, {"files": rng.randint(2, 5)})
    texts.append({"kind": "exps-imports", "src": None, "file": w.main, "lookup": w.lookup})
    main_real = w.vfs._resolve(w.main)[0]
    main_imports = w.files[list(w.files)[0]]["imports"]
    main_macros = w.files[list(w.files)[0]]["macros"]
    import posixpath

    for alt in rng.sample(["/proj/SCRIPT/deep/er/alt.exps", "/proj/alt_top.exps", "/opt/elsewhere/x/alt.exps", "/proj/macros/alt_in_macros.exps"], 2):
        imps = []
        for st, text, tgt in main_imports:
            if st == "rel":
                r = posixpath.relpath(tgt, posixpath.dirname(alt))
                imps.append(r if r.startswith("..") else "./" + r)
            else:
                imps.append(text)
        w.vfs.write(alt, macrolib.render_file(lib, main_macros, imps, w.variant_of, True))
        texts.append({"kind": "exps-imports", "src": None, "file": alt, "lookup": w.lookup})
    # scripts in different directories that reach `common.exps` through a RELATIVE lookup path (resolved against the
    # directory of each importing file): whatever one compile worked out must not serve the next one
    for d_, body_ in (("town", "town_op(1);"), ("dungeon", "dungeon_op(2);")):
        vfs_main = f"/rel/{d_}/main.exps"
        w.vfs.write(f"/rel/{d_}/lib/common.exps", f"macro common() {{\n    {body_}\n}}\n")
        w.vfs.write(vfs_main, 'import "common.exps";\ndef 0 {\n    ~common();\n    end;\n}\n')
        texts.append({"kind": "exps-imports", "src": None, "file": vfs_main, "lookup": ["lib"]})
    w.vfs.write("/rel/cave/main.exps", 'import "common.exps";\ndef 0 {\n    ~common();\n    end;\n}\n')
    texts.append({"kind": "exps-imports", "src": None, "file": "/rel/cave/main.exps", "lookup": ["lib"]})
    for t in rng.sample(INVALID_TEXTS, 4):
        texts.append({"kind": "invalid", "src": t, "file": "/proj/SCRIPT/bad.exps"})
    # routine sets on which the structuring passes need minutes (path enumeration in build_loops explodes for some
    # jump-heavy generated sets: a pure-function pathology, not this check's subject) are left out: they would only turn
    # into wall-clock time-outs. CPU-time budget, far from the 10 ms - 0.5 s a normal set takes.
    keep = [i for i, d in enumerate(docs) if sut.decompiles_in_time(d)]
    if len(keep) != len(docs):
        remap = {old: new for new, old in enumerate(keep)}
        docs = [docs[i] for i in keep]
        families = [[remap[j] for j in fam if j in remap] for fam in families]
        families = [f for f in families if len(f) >= 2]
    vfs = w.vfs
    for t in texts:
        if t["src"] is not None:
            vfs.write(t["file"], t["src"])
    ssbs = []
    for d in docs[:3]:
        o = sut.decompile_ssbs(copy.deepcopy(d))
        if "ok" in o:
            ssbs.append(o["ok"]["text"])
    for k_, t_ in enumerate(ssbs[:2]):
        texts.append({"kind": "ssbscript-marked", "src": sut.MARKER + "\n" + t_, "file": f"/proj/SCRIPT/fallback{k_}.exps"})
        vfs.write(f"/proj/SCRIPT/fallback{k_}.exps", sut.MARKER + "\n" + t_)
    # the project as it is while somebody is editing it: one imported macro file temporarily imports a file that is gone
    broken = Vfs.load(vfs.dump())
    libs = [p for p in w.files if p != list(w.files)[0]]
    if libs:
        victim = rng.choice(libs)
        broken.write(victim, 'import "./not_there_yet.exps";\n' + vfs.nodes[victim][1].decode())
    return {"texts": texts, "docs": docs, "ssbs": ssbs, "vfs": vfs.dump(), "cli": [cli_json_of(d) for d in docs], "families": families,
            "switch_family": [remap_sw for remap_sw in switch_family if remap_sw < len(docs)],
            "abort_family": [x for x in abort_family if x < len(docs)],
            "vfs_variants": [vfs.dump(), broken.dump()]}


# ---- the simulated process ------------------------------------------------------------------------------


class AddressAllocator:
    """Stands in for id() inside graph_utils: a graph gets a fresh key or - decided by the PRNG - the key of a
    graph that is provably dead (legal CPython behaviour: ids of objects with disjoint lifetimes may coincide)."""

    def __init__(self, rng: random.Random):
        self.rng = rng
        self.mode = "fresh"
        self.live: dict[int, int] = {}  # real id -> key
        self.dead: list[int] = []
        self.next_key = 1_000_000
        self.stats = {"fresh": 0, "reused": 0, "graphs_died": 0}
        self.generation: dict[int, int] = {}  # key -> how many graphs have owned it

    def _died(self, real_id: int, key: int):
        if self.live.get(real_id) == key:
            del self.live[real_id]
        self.dead.append(key)
        self.stats["graphs_died"] += 1

    def __call__(self, obj):
        import igraph

        if self.mode == "real" or not isinstance(obj, igraph.Graph):
            return id(obj)
        rid = id(obj)
        k = self.live.get(rid)
        if k is not None:
            return k
        if self.mode == "reuse-dead" and self.dead and self.rng.random() < 0.85:
            # most recently dead first, as a free-list allocator would hand it out
            k = self.dead.pop(-1 if self.rng.random() < 0.7 else self.rng.randrange(len(self.dead)))
            self.stats["reused"] += 1
        else:
            k = self.next_key
            self.next_key += 16
            self.stats["fresh"] += 1
        self.live[rid] = k
        self.generation[k] = self.generation.get(k, 0) + 1
        weakref.finalize(obj, self._died, rid, k)
        return k


class Proc:
    """State of the simulated long-lived process."""

    def __init__(self, pool: dict, run_seed: int, segment: int, version: int = 0):
        self.pool = pool
        self.version = version
        self.vfs = Vfs.load(pool.get("vfs_variants", [pool["vfs"]])[version]).install()
        self.vfs.max_open_files = 12  # a process has only so many descriptors (an import chain holds one per level)
        self.kept_exceptions: list = []  # a caller that logs / collects the exceptions of failed calls keeps their tracebacks alive
        self.compilers: dict = {}
        self.slot_lookup: dict = {}
        self.kept: list = []  # results handed to the caller earlier: a later call must not change them
        self.shared: dict = {}  # doc index -> (infos, coros, rops) objects reused by `share` ops
        self.held: list = []
        self.alloc = AddressAllocator(seeds.stream(run_seed, f"addr{segment}"))
        from explorerscript.ssb_converting.decompiler.graph_building import graph_utils

        self.graph_utils = graph_utils
        graph_utils.id = self.alloc
        self.probes = {"memo_store": 0, "memo_hit": 0, "memo_hit_reused_key": 0, "second_J": 0, "shared_params": 0,
                       "compile_after_failed_on_slot": 0, "fault_fired": 0, "fault_not_reached": 0}
        self._j_count = 0
        self._failed_slots = set()
        self._wrap_memo()

    def _wrap_memo(self):
        """Reach probes on the memo table. The table is replaced by dict subclasses with identical behaviour
        that count stores, hits, and hits on entries stored under an earlier owner of a recycled key."""
        gu = self.graph_utils
        probes = self.probes
        alloc = self.alloc

        class Inner(dict):
            def __init__(s, key):
                super().__init__()
                s.key = key
                s.gen = {}

            def __setitem__(s, k, v):
                probes["memo_store"] += 1
                s.gen[k] = alloc.generation.get(s.key, 0)
                dict.__setitem__(s, k, v)

            def __contains__(s, k):
                r = dict.__contains__(s, k)
                if r:
                    probes["memo_hit"] += 1
                    if s.gen.get(k) != alloc.generation.get(s.key, 0):
                        probes["memo_hit_reused_key"] += 1
                return r

        class Outer(dict):
            def __setitem__(s, k, v):
                inner = Inner(k)
                for a, b in v.items():
                    inner[a] = b
                dict.__setitem__(s, k, inner)

        outer = Outer()
        gu.find_first_common_next_vertex_in_edges_cache = outer
        self._cache = outer

    def cache_entries(self) -> int:
        return sum(len(v) for v in self._cache.values())


def do_op(P: Proc, op: dict) -> dict:
    out = _do_op(P, op)
    if isinstance(out.get("digest"), dict):
        out["digest"]["process_settings_after"] = model.process_settings()
    return out


def _do_op(P: Proc, op: dict) -> dict:
    """Execute one operation in P; returns {'digest': … , 'extra': …}. Exceptions of the *system* are part of
    the digest (type only); injected BaseExceptions propagate to the caller."""
    pool = P.pool
    kind = op["k"]
    if kind == "C":
        t = pool["texts"][op["i"]]
        slot = op.get("slot")
        if slot is None or slot not in P.compilers:
            c = sut.new_compiler(t.get("lookup"))
            if slot is not None:
                P.compilers[slot] = c
                P.slot_lookup[slot] = list(t.get("lookup") or [])
        else:
            c = P.compilers[slot]
            if slot in P._failed_slots:
                P.probes["compile_after_failed_on_slot"] += 1
            # a caller that compiles several files with the same lookup list does not hand the list over again
            if P.slot_lookup.get(slot) != list(t.get("lookup") or []):
                c.lookup_paths[:] = t.get("lookup") or []
                P.slot_lookup[slot] = list(t.get("lookup") or [])
        src = t["src"]
        if src is None:
            # (the caller's own reading of the script is not what is under observation: no descriptor is charged for it)
            src = P.vfs.nodes[P.vfs._resolve(t["file"])[0]][1].decode("utf-8")
        try:
            if op.get("handling"):
                # the caller is handling an exception of its own while it compiles (an error handler that recompiles,
                # a retry after a failed request): that exception is none of the compiler's business
                try:
                    raise KeyError("the caller's own exception")
                except KeyError:
                    c.compile(src, t["file"])
            else:
                c.compile(src, t["file"])
        except Exception as e:
            P.kept_exceptions.append(e)
            del P.kept_exceptions[:-40]
            if slot is not None:
                P._failed_slots.add(slot)
            with trace.observation():
                dg = model.failure_digest(e)
                # what a caller can read from the object after the failure is part of what the call "gives"
                dg["readable_results"] = [a for a in ("routine_ops", "routine_infos", "named_coroutines", "source_map") if getattr(c, a, None) is not None]
                dg["readable_results"] += [a for a in ("imports", "macros", "macro_resolution_order") if getattr(c, a, None)]
            return {"digest": dg}
        if slot is not None:
            P._failed_slots.discard(slot)
        with trace.observation():
            dg = model.compile_digest(c)
        if slot is None:
            P.kept.append(("C", c, model.canon(dg)))
        return {"digest": dg}
    if kind in ("D", "S", "J"):
        j = op["j"]
        doc = pool["docs"][j]
        if kind == "J":
            from explorerscript.cli import decompile as cli_dec

            P._j_count += 1
            if P._j_count > 1:
                P.probes["second_J"] += 1
            infos, coros, rops = cli_dec.read_routines(copy.deepcopy(pool["cli"][j])["routines"])
            with trace.observation():
                decoded = model.routines_to_json(infos, [c for c in coros], rops)
            objs = (infos, coros, rops)
            # the decoded routine set is part of the observation (numbering must not depend on history)
            pre_view = model.structural_view(decoded)
        else:
            if op.get("share") and j in P.shared:
                objs = P.shared[j]
                P.probes["shared_params"] += 1
            else:
                objs = model.routines_from_json(doc)
                P.shared[j] = objs
            pre_view = None
        infos, coros, rops = objs
        with trace.observation():
            before = model.routines_to_json(infos, coros, rops)
        from explorerscript.ssb_converting.ssb_decompiler import ExplorerScriptSsbDecompiler
        from explorerscript.ssb_script.ssb_converting.ssb_decompiler import SsbScriptSsbDecompiler
        from explorerscript.ssb_converting.ssb_data_types import DungeonModeConstants

        if kind == "S":
            d = SsbScriptSsbDecompiler(infos, rops, coros)
        else:
            d = ExplorerScriptSsbDecompiler(infos, rops, coros, sut.PPL, DungeonModeConstants(*sut.DMC))
        if op.get("hold"):
            P.held.append(d)
        try:
            text, sm = d.convert()
            if op.get("again"):
                text, sm = d.convert()  # the same decompiler object asked again: the same answer
            with trace.observation():
                dg = model.decompile_digest(text, sm)
            P.kept.append(("D", (text, sm), model.canon(dg)))
        except Exception as e:
            dg = model.failure_digest(e)
        if pre_view is not None:
            dg = {"decoded": pre_view, "result": dg}
        with trace.observation():
            after = model.routines_to_json(infos, coros, rops)
        extra = {}
        if model.canon(before) != model.canon(after):
            extra["input_changed"] = _first_diff(before, after)
        return {"digest": dg, "extra": extra}
    if kind == "SC":
        from explorerscript.ssb_script.ssb_converting.ssb_compiler import SsbScriptSsbCompiler

        slot = op.get("slot")
        if slot is None:
            c = SsbScriptSsbCompiler()
        else:
            c = P.compilers.setdefault(("ssbs", slot), SsbScriptSsbCompiler())
        try:
            c.compile(pool["ssbs"][op["i"]])
        except Exception as e:
            with trace.observation():
                dg = model.failure_digest(e)
                dg["readable_results"] = [a for a in ("routine_ops", "routine_infos", "named_coroutines", "source_map") if getattr(c, a, None) is not None]
            return {"digest": dg}
        with trace.observation():
            d = model.routines_to_json(c.routine_infos, c.named_coroutines, c.routine_ops)
            d["source_map"] = json.loads(c.source_map.serialize())
        return {"digest": d}
    raise HarnessError(f"unknown op {op}")


def _first_diff(a: dict, b: dict) -> str:
    for i, (ra, rb) in enumerate(zip(a["routines"], b["routines"])):
        if len(ra["ops"]) != len(rb["ops"]):
            return f"routine {i}: {len(ra['ops'])} ops -> {len(rb['ops'])}"
        for j, (x, y) in enumerate(zip(ra["ops"], rb["ops"])):
            if x != y:
                return f"routine {i} op {j}: {json.dumps(x)[:120]} -> {json.dumps(y)[:120]}"
        if {k: v for k, v in ra.items() if k != "ops"} != {k: v for k, v in rb.items() if k != "ops"}:
            return f"routine {i} header changed"
    return "routine count changed"


EXC = {"KeyboardInterrupt": KeyboardInterrupt, "MemoryError": MemoryError, "RecursionError": RecursionError, "AssertionError": AssertionError}


def run_segment(pool: dict, ops: list, run_seed: int, segment: int, version: int = 0) -> list:
    """One simulated process executing a list of ops; returns one record per op."""
    sut.quiet_logging()
    trace.all_repo_codes()
    P = Proc(pool, run_seed, segment, version)
    recs = []
    armed = None
    for n, op in enumerate(ops):
        k = op["k"]
        if k == "G":
            gc.collect()
            recs.append({"n": n, "k": k})
            continue
        if k == "R":
            P.held.clear()
            P.shared.clear() if op.get("all") else None
            recs.append({"n": n, "k": k})
            continue
        if k == "A":
            P.alloc.mode = op["mode"]
            recs.append({"n": n, "k": k})
            continue
        if k == "L":
            sut.quiet_logging(logging.DEBUG if op["level"] == "DEBUG" else logging.WARNING)
            recs.append({"n": n, "k": k})
            continue
        if k == "X":
            armed = op
            recs.append({"n": n, "k": k})
            continue
        if k == "E":
            # the files on disk change between calls (an imported file is broken / repaired by its author)
            P.version = op["v"]
            P.vfs.nodes = Vfs.load(pool["vfs_variants"][op["v"]]).nodes
            recs.append({"n": n, "k": k})
            continue
        if armed is not None:
            exc = EXC[armed["exc"]]("simkit: injected")
            cp = trace.CrashPoint(armed["kind"], armed["at"], exc)
            try:
                out = cp.run(do_op, P, op)
                rec = {"n": n, "k": k, "op": op, "faulted": True, "fired": cp.fired, "at": cp.fired_at, "digest": out["digest"], "extra": out.get("extra", {})}
            except BaseException as e:
                if not cp.fired:
                    raise
                rec = {"n": n, "k": k, "op": op, "faulted": True, "fired": True, "at": cp.fired_at, "aborted": type(e).__name__}
            P.probes["fault_fired" if cp.fired else "fault_not_reached"] += 1
            armed = None
        else:
            out = do_op(P, op)
            rec = {"n": n, "k": k, "op": op, "faulted": False, "digest": out["digest"], "extra": out.get("extra", {})}
        rec["cache_entries"] = P.cache_entries()
        rec["ver"] = P.version
        recs.append(rec)
    # what earlier calls returned must still be what it was when they returned it
    changed = []
    for idx, (kind, obj, canon_then) in enumerate(P.kept[-40:]):
        try:
            now = model.canon(model.compile_digest(obj)) if kind == "C" else model.canon(model.decompile_digest(*obj))
        except Exception as e:
            now = f"unreadable: {type(e).__name__}"
        if now != canon_then:
            changed.append(f"{kind}#{idx}")
    recs.append({"probes": P.probes, "alloc": P.alloc.stats, "cache_entries_end": P.cache_entries(), "results_changed_later": changed})
    return recs


def reference(pool: dict, op: dict, version: int = 0) -> dict:
    """The same op alone in a pristine process (fault-free); also counts the crash-point events it offers."""
    sut.quiet_logging()
    P = Proc(pool, 0, 0, version)
    P.alloc.mode = "real"
    counts = {}
    out = do_op(P, {k: v for k, v in op.items() if k not in ("share", "hold", "handling", "again")})
    return {"digest": out["digest"], "extra": out.get("extra", {})}


def reference_count(pool: dict, op: dict, kind: str) -> int:
    """How many crash-point events of `kind` the op offers when run alone (to place faults inside it)."""
    sut.quiet_logging()
    P = Proc(pool, 0, 0)
    cp = trace.CrashPoint(kind, 0, None)
    cp.run(do_op, P, {k: v for k, v in op.items() if k not in ("share", "hold", "handling", "again")})
    return cp.count


# ---- histories --------------------------------------------------------------------------------------------


def op_key(op: dict, ver: int = 0) -> str:
    k = op["k"]
    if k == "C":
        return f"C{op['i']}" + (f"@v{ver}" if ver else "")
    if k == "SC":
        return f"SC{op['i']}"
    return f"{k}{op['j']}"


def gen_history(pool: dict, rng: random.Random, knobs: dict) -> list:
    n = rng.randint(*knobs["length"])
    ops = []
    nt, nd, ns = len(pool["texts"]), len(pool["docs"]), len(pool["ssbs"])
    weights = knobs["weights"]
    kinds = [k for k, w in weights.items() for _ in range(w)]
    fams = pool.get("families") or []
    family = rng.choice(fams) if fams and rng.random() < 0.35 else None  # this history keeps to one family of look-alike routine sets

    def pick_doc():
        return rng.choice(family) if family is not None and rng.random() < 0.85 else rng.randrange(nd)

    if rng.random() < 0.8:
        ops.append({"k": "A", "mode": rng.choice(["reuse-dead", "reuse-dead", "fresh", "real"])})
    for _ in range(n):
        k = rng.choice(kinds)
        if k == "C":
            ops.append({"k": "C", "i": rng.randrange(nt), "slot": rng.choice([None, 0, 0, 1])})
            if rng.random() < 0.12:
                ops[-1]["handling"] = True
        elif k in ("D", "S", "J") and nd:
            ops.append({"k": k if family is None or k != "S" else "D", "j": pick_doc(), "share": rng.random() < 0.5, "hold": rng.random() < 0.15})
            if ops[-1]["k"] in ("D", "S") and rng.random() < 0.1:
                ops[-1]["again"] = True
        elif k == "SC" and ns:
            ops.append({"k": "SC", "i": rng.randrange(ns), "slot": rng.choice([None, 0, 0])})
        elif k == "G":
            ops.append({"k": "G"})
        elif k == "R":
            ops.append({"k": "R", "all": rng.random() < 0.3})
        elif k == "A":
            ops.append({"k": "A", "mode": rng.choice(["reuse-dead", "fresh", "real"])})
        elif k == "L":
            ops.append({"k": "L", "level": rng.choice(["DEBUG", "WARNING"])})
        elif k == "X":
            ops.append({"k": "X", "kind": rng.choice(["line", "line", "assert", "return", "return"]),
                        "exc": rng.choice(["KeyboardInterrupt", "MemoryError", "RecursionError", "AssertionError", "AssertionError"]),
                        "frac": rng.random()})
            # an armed fault needs an op to land in
            if rng.random() < 0.6 and nd:
                ops.append({"k": rng.choice(["D", "D", "S", "J"]), "j": rng.randrange(nd), "share": rng.random() < 0.5})
            else:
                ops.append({"k": "C", "i": rng.randrange(nt), "slot": rng.choice([None, 0, 0, 1])})
        elif k == "RESTART":
            ops.append({"k": "RESTART"})
        elif k == "E" and len(pool.get("vfs_variants", [])) > 1:
            cur_v = next((o["v"] for o in reversed(ops) if o["k"] == "E"), 0)
            ops.append({"k": "E", "v": 1 - cur_v})
            # an edit is only interesting with a compile of a script of the project around it
            proj = [i for i, t in enumerate(pool["texts"]) if t["kind"] == "exps-imports"]
            if proj:
                ops.append({"k": "C", "i": rng.choice(proj), "slot": rng.choice([0, 0, 1])})
    # faults without workload test nothing: make sure the history ends with real work after the last fault
    if nd:
        ops.append({"k": "D", "j": pick_doc(), "share": rng.random() < 0.5})
    if any(o["k"] == "E" for o in ops):
        proj = [i for i, t in enumerate(pool["texts"]) if t["kind"] == "exps-imports"]
        if next((o["v"] for o in reversed(ops) if o["k"] == "E"), 0) == 1:
            ops.append({"k": "E", "v": 0})  # the author repairs the file
        if proj:
            ops.append({"k": "C", "i": rng.choice(proj), "slot": 0})
    ops.append({"k": "C", "i": rng.randrange(nt), "slot": 0})
    return ops


def history_knobs(rng: random.Random) -> dict:
    w = {"C": 4, "D": 5, "S": 2, "J": 2, "SC": 1, "G": 2, "R": 1, "A": 1, "L": 1, "X": 3, "RESTART": 1, "E": 2}
    for k in list(w):
        if k not in ("C", "D") and rng.random() < 0.3:
            w[k] = 0  # swarm: disable some kinds for this history
    if rng.random() < 0.25:
        w["X"] = 6
    return {"weights": w, "length": rng.choice([(3, 8), (6, 16), (12, 40)])}


def resolve_faults(ops: list, counts: dict) -> list:
    """Turn fractional fault positions into event numbers using the reference event counts of the next op."""
    out = []
    for i, op in enumerate(ops):
        if op["k"] == "X" and "at" not in op:
            nxt = next((o for o in ops[i + 1:] if o["k"] in ("C", "D", "S", "J", "SC")), None)
            total = counts.get(op_key(nxt), {}).get(op["kind"], 0) if nxt else 0
            op = dict(op)
            op["at"] = max(1, int(op["frac"] * total) + 1) if total else 1
        out.append(op)
    return out


def judge_history(recs_by_segment: list, refs: dict) -> list:
    """-> violations [{sig, n, op, …}]"""
    viols = []
    for seg, recs in enumerate(recs_by_segment):
        tail = recs[-1] if recs else {}
        if tail.get("results_changed_later"):
            viols.append({"sig": {"clause": "a-later-call-does-not-change-an-earlier-result", "op": tail["results_changed_later"][0][0], "field": "returned object"},
                          "segment": seg, "n": len(recs) - 1, "op": {"k": "G"}, "detail": ",".join(tail["results_changed_later"][:5])})
        for r in recs:
            if "k" not in r or r["k"] not in ("C", "D", "S", "J", "SC"):
                continue
            ref = refs[op_key(r["op"], r.get("ver", 0))]
            if r.get("faulted") and r.get("fired"):
                continue  # the faulted op itself may raise or degrade; everything after it is checked
            got = r["digest"]
            if model.canon(got) != model.canon(ref["digest"]):
                viols.append({"sig": {"clause": "same-result-whatever-came-before", "op": r["k"], "field": _which_field(got, ref["digest"])},
                              "segment": seg, "n": r["n"], "op": r["op"]})
            ex = r.get("extra") or {}
            if ex.get("input_changed"):
                viols.append({"sig": {"clause": "decompilation-does-not-alter-its-input", "op": r["k"], "field": "routine set"},
                              "segment": seg, "n": r["n"], "op": r["op"], "detail": ex["input_changed"]})
    return viols


def _which_field(a, b) -> str:
    if not isinstance(a, dict) or not isinstance(b, dict):
        return "?"
    if "raised" in a or "raised" in b:
        return f"outcome({a.get('raised', 'ok')} vs {b.get('raised', 'ok')})"
    if "result" in a and "result" in b:
        if a.get("decoded") != b.get("decoded"):
            return "decoded routine set"
        return "J:" + _which_field(a["result"], b["result"])
    for k in sorted(set(a) | set(b)):
        if a.get(k) != b.get(k):
            return k
    return "?"


def split_segments(ops: list) -> list[list]:
    segs = [[]]
    for op in ops:
        if op["k"] == "RESTART":
            segs.append([])
        else:
            segs[-1].append(op)
    return [s for s in segs if s]


def versions_of(ops: list) -> list[int]:
    """File-system version in force at each op (E ops change it; a restart does not: files stay on disk)."""
    v = 0
    out = []
    for op in ops:
        if op["k"] == "E":
            v = op["v"]
        out.append(v)
    return out


def run_history(pool: dict, ops: list, run_seed: int, refs: dict) -> tuple[list, list]:
    recs = []
    ver = 0
    for si, seg in enumerate(split_segments(ops)):
        recs.append(forkrun(run_segment, pool, seg, run_seed, si, ver, timeout=120))
        for op in seg:
            if op["k"] == "E":
                ver = op["v"]
    return recs, judge_history(recs, refs)


def run_item(item: dict) -> dict:
    """pmap unit: one input pool, its reference digests, and K histories over it."""
    trace.all_repo_codes()  # built once per shard worker, inherited by the forked simulated processes
    trace._code_objects_with_sites(trace.assert_sites())
    trace.with_lines()
    pool_seed, tier = item["pool_seed"], item["tier"]
    pool = forkrun(make_pool, pool_seed, timeout=300)
    res = {"pool_seed": pool_seed, "histories": 0, "ops": 0, "faults_fired": 0, "faults_not_reached": 0, "violations": [],
           "probes": {}, "alloc": {}, "shapes": [], "processes": 0, "ref_failures": 0}
    # histories first (their shape needs only the pool sizes), then references for the operations they use
    hists = []
    for h in range(item["histories"]):
        hs = seeds.H(pool_seed, "history", h)
        hrng = seeds.stream(hs, "ops")
        hists.append((hs, gen_history(pool, hrng, history_knobs(hrng))))
    # pairwise sweep over families of look-alike routine sets under adversarial id() reuse: the earlier call's graphs
    # are dead and collected, the later call's graphs take their keys (what a memo keyed by id(graph) plus a weak
    # content key would confuse)
    srng = seeds.stream(pool_seed, "sweep")
    pairs = [(a, b) for fam in pool.get("families", []) for a in fam for b in fam if a != b]
    srng.shuffle(pairs)
    for a, b in pairs[: item.get("sweep_pairs", 12)]:
        ops = [{"k": "A", "mode": "reuse-dead"}, {"k": "D", "j": a}, {"k": "G"}, {"k": "D", "j": b}]
        if srng.random() < 0.3:
            ops[1:1] = [{"k": "X", "kind": "return", "exc": "KeyboardInterrupt", "frac": srng.random()}]
        hists.append((seeds.H(pool_seed, "sweep", a, b), ops))
    # a decompilation that ends in the fallback (state of the passes it had already run is left where it was), then
    # another routine set
    def _falls_back(j):
        r = forkrun(reference, pool, {"k": "D", "j": j}, timeout=300)
        return "text" in r["digest"] and r["digest"]["text"].startswith(sut.MARKER)

    fb = [j for j in range(len(pool["docs"])) if _falls_back(j)]
    res["processes"] += len(pool["docs"])
    others = list(range(len(pool["docs"])))
    srng.shuffle(others)
    for f_ in (list(pool.get("abort_family", [])) + [x for x in fb if x not in pool.get("abort_family", [])][:2]):
        for o_ in (others[:2] + list(pool.get("switch_family", []))):
            if o_ != f_:
                hists.append((seeds.H(pool_seed, "fb", f_, o_), [{"k": "A", "mode": "reuse-dead"}, {"k": "D", "j": o_}, {"k": "D", "j": f_}, {"k": "G"}, {"k": "D", "j": o_}]))
    # every look-alike routine set, collected, then every small switch-only routine set (the memo of the search for a
    # common end is only ever read without a preceding clear by the switch pass)
    sw = list(pool.get("switch_family", []))
    for fam in pool.get("families", []):
        for x_ in fam:
            for z_ in sw:
                if srng.random() < 0.5:
                    hists.append((seeds.H(pool_seed, "famsw", x_, z_), [{"k": "A", "mode": "reuse-dead"}, {"k": "D", "j": x_}, {"k": "G"}, {"k": "D", "j": z_}]))
    # "the same input repeated": the very same op objects decompiled again, by the same or by the other decompiler
    rdocs = list(range(len(pool["docs"])))
    srng.shuffle(rdocs)
    for j in rdocs[: item.get("repeat_docs", 6)]:
        a, b = srng.choice([("D", "D"), ("S", "D"), ("D", "S"), ("S", "D")])
        hists.append((seeds.H(pool_seed, "repeat", j), [{"k": a, "j": j, "share": True}, {"k": b, "j": j, "share": True}, {"k": "D", "j": j, "share": True}]))
    # many failed compiles of a project script (an imported file is broken), their exceptions kept by the caller, then
    # the repaired project: what the failures left open (files, locks, stacks) must not starve the later compile
    proj = [i for i, t in enumerate(pool["texts"]) if t["kind"] == "exps-imports"]
    if len(pool.get("vfs_variants", [])) > 1 and proj and srng.random() < 0.6:
        pi = srng.choice(proj)
        hists.append((seeds.H(pool_seed, "failures", pi), [{"k": "E", "v": 1}] + [{"k": "C", "i": srng.choice(proj), "slot": srng.choice([None, 0])} for _ in range(16)]
                      + [{"k": "E", "v": 0}, {"k": "C", "i": pi, "slot": None}]))
    refs = {}
    counts = {}
    for hs, ops in hists:
        vers = versions_of(ops)
        for i, op in enumerate(ops):
            if op["k"] not in ("C", "D", "S", "J", "SC"):
                continue
            key = op_key(op, vers[i])
            if key not in refs:
                refs[key] = forkrun(reference, pool, op, vers[i], timeout=300)
                res["processes"] += 1
                ex = refs[key].get("extra") or {}
                if ex.get("input_changed"):
                    res["violations"].append({"sig": {"clause": "decompilation-does-not-alter-its-input", "op": op["k"], "field": "routine set"},
                                              "history": [op], "n": 0, "op": op, "detail": ex["input_changed"], "pool_seed": pool_seed, "run_seed": hs})
            prev = ops[i - 1] if i > 0 else None
            if prev is not None and prev["k"] == "X":
                c = counts.setdefault(op_key(op), {})
                if prev["kind"] not in c:
                    c[prev["kind"]] = forkrun(reference_count, pool, op, prev["kind"], timeout=300)
                    res["processes"] += 1
    res["ref_outcomes"] = {k: ("raised:" + v["digest"]["raised"] if "raised" in v["digest"] else "ok") for k, v in refs.items()}
    for h, (hs, ops) in enumerate(hists):
        ops = resolve_faults(ops, counts)
        recs, viols = run_history(pool, ops, hs, refs)
        res["histories"] += 1
        res["processes"] += len(recs)
        for seg in recs:
            tail = seg[-1]
            for k, v in tail["probes"].items():
                res["probes"][k] = res["probes"].get(k, 0) + v
            for k, v in tail["alloc"].items():
                res["alloc"][k] = res["alloc"].get(k, 0) + v
            res["ops"] += sum(1 for r in seg if r.get("k") in ("C", "D", "S", "J", "SC"))
        res["shapes"].append(seeds.sha([(o["k"], o.get("kind"), o.get("exc"), o.get("mode")) for o in ops]))
        for v in viols:
            v["history"] = ops
            v["run_seed"] = hs
            v["pool_seed"] = pool_seed
            res["violations"].append(v)
        if h == 0:
            res["sample_history"] = [_brief(o) for o in ops]
    return res


def _brief(o: dict) -> str:
    k = o["k"]
    if k == "C":
        return f"C(text{o['i']},slot={o.get('slot')}{',handling' if o.get('handling') else ''})"
    if k in ("D", "S", "J"):
        return f"{k}(doc{o['j']}{',share' if o.get('share') else ''}{',hold' if o.get('hold') else ''}{',again' if o.get('again') else ''})"
    if k == "SC":
        return f"SC(ssbs{o['i']})"
    if k == "X":
        return f"X({o['kind']},{o['exc']}@{o.get('at')})"
    if k == "A":
        return f"A({o['mode']})"
    if k == "L":
        return f"L({o['level']})"
    if k == "E":
        return f"E(files v{o['v']})"
    return k


# ---- minimisation / replay -------------------------------------------------------------------------------


def minimise(pool: dict, ops: list, run_seed: int, refs: dict, sig: dict, budget: int = 60) -> list:
    def fails(cand):
        nonlocal budget
        if budget <= 0:
            return False
        budget -= 1
        try:
            _, vs = run_history(pool, cand, run_seed, refs)
        except HarnessError:
            return False
        return any(v["sig"] == sig for v in vs)

    cur = list(ops)
    chunk = max(1, len(cur) // 2)
    while chunk >= 1 and budget > 0:
        i = 0
        progressed = False
        while i < len(cur) and budget > 0:
            cand = cur[:i] + cur[i + chunk:]
            # an X must keep an op to land in: drop X together with nothing else is fine, dropping its target is too
            if cand and fails(cand):
                cur = cand
                progressed = True
            else:
                i += chunk
        if chunk == 1 and not progressed:
            break
        chunk = max(1, chunk // 2) if chunk > 1 else (1 if progressed else 0)
        if chunk == 0:
            break
    return cur


def all_refs(pool: dict, ops: list) -> dict:
    """References for every operation of a history, under every file-system version the history (or a shortened
    version of it) can put it in."""
    refs = {}
    vers = [0, 1] if any(o["k"] == "E" for o in ops) else [0]
    for op in ops:
        if op["k"] not in ("C", "D", "S", "J", "SC"):
            continue
        for v in (vers if op["k"] == "C" else [0]):
            if op_key(op, v) not in refs:
                refs[op_key(op, v)] = forkrun(reference, pool, op, v, timeout=300)
    return refs


def replay(payload: dict) -> dict:
    if "import_order" in payload:
        outs = import_order_outcomes(payload["import_order"]["source"])
        return {"sig": payload["signature"] if len(set(outs.values())) > 1 else None}
    pool = payload["pool"]
    ops = payload["history"]
    refs = all_refs(pool, ops)
    for k, v in refs.items():
        ex = v.get("extra") or {}
        if ex.get("input_changed") and payload["signature"]["clause"] == "decompilation-does-not-alter-its-input":
            return {"sig": payload["signature"]}
    _, vs = run_history(pool, ops, payload["run_seed"], refs)
    for v in vs:
        if v["sig"] == payload["signature"]:
            return {"sig": v["sig"]}
    return {"sig": vs[0]["sig"] if vs else None}


# ---- fresh-process clause --------------------------------------------------------------------------------

FRESH_SCRIPT = r'''
import sys, json, os
sys.path.insert(0, os.environ["SIMKIT_VERIF"])
from simkit import boot
boot.eager_import()
pad = int(os.environ.get("SIMKIT_PAD", "0"))
import igraph
_keep = [igraph.Graph(directed=True) for _ in range(pad)]
from engines import histworld
from simkit import model
req = json.load(sys.stdin)
out = histworld.reference(req["pool"], req["op"])
print(json.dumps({"canon": model.canon(out["digest"])}))
'''


def fresh_interpreter(pool: dict, op: dict, hashseed: str, aslr: bool, pad: int) -> str:
    from simkit.boot import repo_dir, VERIF_DIR

    env = dict(os.environ)
    env.update({"PYTHONHASHSEED": hashseed, "PYTHONPATH": repo_dir() + os.pathsep + VERIF_DIR, "SIMKIT_VERIF": VERIF_DIR,
                "SIMKIT_PAD": str(pad), "PYTHONDONTWRITEBYTECODE": "1", "SIMKIT_BOOTED": "1"})
    cmd = [sys.executable, "-c", FRESH_SCRIPT]
    p = subprocess.run(cmd, input=json.dumps({"pool": pool, "op": op}), capture_output=True, text=True, env=env, timeout=300,
                       preexec_fn=(None if not aslr else _aslr_on))
    if p.returncode != 0:
        raise HarnessError(f"fresh interpreter failed: {p.stderr[-400:]}")
    return json.loads(p.stdout.strip().splitlines()[-1])["canon"]


def _aslr_on():
    import ctypes

    libc = ctypes.CDLL(None)
    cur = libc.personality(0xFFFFFFFF)
    if cur != -1:
        libc.personality(cur & ~0x0040000)


IMPORT_ORDER_SCRIPT = r'''
import sys, json, os
mode = os.environ["SIMKIT_IMPORT_MODE"]
if mode != "compiler-only":
    import explorerscript.ssb_converting.ssb_decompiler as dec
if mode == "after-a-decompilation":
    from explorerscript.ssb_converting.ssb_data_types import SsbRoutineInfo, SsbRoutineType, SsbOperation, SsbOpCode, DungeonModeConstants
    dec.ExplorerScriptSsbDecompiler([SsbRoutineInfo(SsbRoutineType.GENERIC, 0)], [[SsbOperation(0, SsbOpCode(-1, "a"), []), SsbOperation(1, SsbOpCode(-1, "End"), [])]],
                                    [], "$PPL", DungeonModeConstants("C", "O", "R", "OR")).convert()
from explorerscript.ssb_converting.ssb_compiler import ExplorerScriptSsbCompiler
src = sys.stdin.read()
c = ExplorerScriptSsbCompiler("$PPL")
try:
    c.compile(src, "/sim/deep.exps")
    out = ["ok", [[[op.offset, op.op_code.name, len(op.params)] for op in r] for r in c.routine_ops], c.source_map.serialize()]
except BaseException as e:
    out = ["raised", type(e).__name__]
print(json.dumps(out))
'''


def deep_texts() -> dict:
    """Programs whose compilation recurses deeply (what the process has imported or done before must not decide whether
    they compile)."""
    def nest(open_, close, n, body="a();"):
        return "def 0 {\n" + "".join(f"{open_(i)}\n" for i in range(n)) + body + "\n" + "".join(f"{close}\n" for _ in range(n)) + "end;\n}\n"

    return {
        "nested_ifs_130": nest(lambda i: f"if ($V == {i}) {{ op();", "}", 130),
        "nested_ifs_debug_150": nest(lambda i: "if (debug) {", "}", 150),
        "nested_loops_90": nest(lambda i: f"while ($W < {i}) {{ forever {{", "break_loop; } }", 90),
        "nested_ifs_40": nest(lambda i: f"if ($V == {i}) {{ op();", "}", 40),
    }


def import_order_outcomes(src: str) -> dict:
    from simkit.boot import repo_dir

    outs = {}
    for mode in ("compiler-only", "decompiler-imported-first", "after-a-decompilation"):
        env = {k: v for k, v in os.environ.items() if k not in ("PYTHONSTARTUP",)}
        env.update({"PYTHONHASHSEED": "0", "PYTHONPATH": repo_dir(), "SIMKIT_IMPORT_MODE": mode, "PYTHONDONTWRITEBYTECODE": "1"})
        p = subprocess.run([sys.executable, "-W", "ignore", "-c", IMPORT_ORDER_SCRIPT], input=src, capture_output=True, text=True, env=env, timeout=300)
        if p.returncode != 0 or not p.stdout.strip():
            raise HarnessError(f"import-order interpreter failed ({mode}): {p.stderr[-300:]}")
        outs[mode] = p.stdout.strip().splitlines()[-1]
    return outs


def import_order_item(item: dict) -> dict:
    src = deep_texts()[item["text"]]
    outs = import_order_outcomes(src)
    res = {"replicas": len(outs), "violations": [], "outcomes": {m: json.loads(o)[0] + (":" + json.loads(o)[1] if json.loads(o)[0] == "raised" else "") for m, o in outs.items()}}
    if len(set(outs.values())) > 1:
        res["violations"].append({"sig": {"clause": "same-result-whatever-was-imported-before", "op": "C", "field": item["text"]},
                                  "import_order": {"text": item["text"], "source": src, "outcomes": res["outcomes"]}})
    return res


def fresh_item(item: dict) -> dict:
    if item.get("import_order"):
        return import_order_item(item)
    pool = forkrun(make_pool, item["pool_seed"], timeout=300)
    op = dict(item["op"])
    if "project" in op:
        proj = [i for i, t in enumerate(pool["texts"]) if t["kind"] == "exps-imports"]
        if not proj:
            return {"skipped": True}
        op["i"] = proj[op.pop("project") % len(proj)]
    if op["k"] == "C" and op["i"] >= len(pool["texts"]):
        return {"skipped": True}
    if op["k"] in ("D", "S", "J") and op["j"] >= len(pool["docs"]):
        return {"skipped": True}
    ref = forkrun(reference, pool, op, timeout=300)
    want = model.canon(ref["digest"])
    res = {"replicas": 0, "violations": [], "configs": []}
    for hashseed, aslr, pad in item["configs"]:
        got = fresh_interpreter(pool, op, hashseed, aslr, pad)
        res["replicas"] += 1
        res["configs"].append([hashseed, aslr, pad])
        if got != want:
            res["violations"].append({"sig": {"clause": "same-result-in-a-fresh-process", "op": op["k"], "field": f"hashseed={hashseed},aslr={aslr},pad={pad}"},
                                      "history": [op], "pool_seed": item["pool_seed"], "run_seed": 0, "n": 0, "op": op})
    return res


# ---- the check ------------------------------------------------------------------------------------------

TIERS = {"quick": {"pools": 90, "histories": 4, "fresh": 24, "wall_cap": 80.0},
         "thorough": {"pools": 700, "histories": 8, "fresh": 300, "wall_cap": 1500.0}}


def _any_item(item):
    return fresh_item(item) if item.get("fresh") else run_item(item)


def check(rep, tier: str, master: int, only_idx=None) -> None:
    import time

    cfg = TIERS[tier]
    t0 = time.time()
    items = [{"idx": i, "pool_seed": seeds.run_seed(master, ENGINE, i), "tier": tier, "histories": cfg["histories"]} for i in range(cfg["pools"])]
    frng = seeds.stream(master, "fresh")
    fresh = []
    for i in range(cfg["fresh"]):
        op = frng.choice([{"k": "C", "i": frng.randrange(3), "slot": None}, {"k": "C", "project": frng.randrange(3), "slot": None},
                          {"k": "C", "project": frng.randrange(3), "slot": None}, {"k": "D", "j": frng.randrange(12)}, {"k": "D", "j": frng.randrange(12)},
                          {"k": "S", "j": frng.randrange(3)}, {"k": "J", "j": frng.randrange(3)}])
        configs = [(hs, frng.random() < 0.5, frng.choice([0, 0, 3, 17])) for hs in ("1", str(frng.randrange(2 ** 31)), str(frng.randrange(2 ** 31)))]
        fresh.append({"idx": 10_000 + i, "fresh": True, "pool_seed": items[i % len(items)]["pool_seed"], "op": op, "configs": configs})
    fresh += [{"idx": 20_000 + i, "fresh": True, "import_order": True, "text": name} for i, name in enumerate(sorted(deep_texts()))]
    work = items + fresh
    if only_idx is not None:
        work = [w for w in work if w["idx"] in only_idx]
    results = pmap(_any_item, work, wall_cap=cfg["wall_cap"])
    agg = {"histories": 0, "ops": 0, "processes": 0, "pools": 0, "fresh_replicas": 0, "skipped_wall_cap": 0}
    probes: dict = {}
    alloc: dict = {}
    shapes = set()
    samples = []
    ref_outcomes: dict = {}
    viols = []
    pools_by_seed = {}
    for it, (st, r) in zip(work, results):
        if st == "skipped":
            agg["skipped_wall_cap"] += 1
            continue
        if st != "ok":
            rep.harness_error(f"item {it['idx']} pool {it['pool_seed']}: {r}")
            continue
        if it.get("fresh"):
            if r.get("skipped"):
                continue
            agg["fresh_replicas"] += r["replicas"]
            agg["processes"] += r["replicas"] + 1
            viols += r["violations"]
            continue
        agg["pools"] += 1
        agg["histories"] += r["histories"]
        agg["ops"] += r["ops"]
        agg["processes"] += r["processes"]
        for k, v in r["probes"].items():
            probes[k] = probes.get(k, 0) + v
        for k, v in r["alloc"].items():
            alloc[k] = alloc.get(k, 0) + v
        for v in r.get("ref_outcomes", {}).values():
            ref_outcomes[v] = ref_outcomes.get(v, 0) + 1
        shapes.update(r["shapes"])
        if len(samples) < 3 and "sample_history" in r:
            samples.append({"pool_seed": r["pool_seed"], "history": r["sample_history"]})
        viols += r["violations"]
    # report: minimise the first instance of every distinct signature, replay it in fresh forks
    seen = set()
    from simkit.report import match_finding

    for v in viols:
        key = json.dumps(v["sig"], sort_keys=True)
        if match_finding(rep.findings, v["sig"]) is not None or key in seen:
            rep.violation(v["sig"], {}, "")
            continue
        seen.add(key)
        if "import_order" in v:
            payload = {"engine": ENGINE, "import_order": v["import_order"]}
            if replay({**payload, "signature": v["sig"]})["sig"] != v["sig"]:
                rep.harness_error(f"violation did not replay: {v['sig']}")
                continue
            rep.violation(v["sig"], payload, f"{v['sig']}: {v['import_order']['outcomes']}")
            continue
        pool = forkrun(make_pool, v["pool_seed"], timeout=300)
        ops = v["history"]
        refs = {}
        try:
            refs = all_refs(pool, ops)
            if v["sig"]["clause"] == "same-result-whatever-came-before":
                ops = minimise(pool, ops, v["run_seed"], refs, v["sig"])
        except HarnessError as e:
            rep.harness_error(f"minimisation: {e}")
        used_t = sorted({o["i"] for o in ops if o["k"] == "C"})
        payload = {"engine": ENGINE, "pool": pool, "history": ops, "run_seed": v["run_seed"], "history_brief": [_brief(o) for o in ops],
                   "failing_op": _brief(v["op"]), "detail": v.get("detail")}
        again = replay({**payload, "signature": v["sig"]})
        if again["sig"] != v["sig"] and v["sig"]["clause"] != "same-result-in-a-fresh-process":
            rep.harness_error(f"violation did not replay: {v['sig']} history={payload['history_brief']}")
            continue
        rep.violation(v["sig"], payload, f"{v['sig']} at {_brief(v['op'])} after {[_brief(o) for o in ops][:12]}")
    wall = time.time() - t0
    rep.coverage = {
        "evaluations": agg["histories"] + agg["fresh_replicas"],
        "distinct_nontrivial": len(shapes),
        "rule": "one evaluation = one history (3-40 operations over a seeded pool of programs, routine sets, SsbScript texts and CLI "
                "JSON documents, run in one or more simulated processes) or one real fresh-interpreter replica. Every un-faulted "
                "operation is compared with the digest of the same operation alone in a pristine process (ops, text, source maps, "
                "exception type). distinct_nontrivial = distinct sequences of (operation kind, fault kind, exception, address mode).",
        "samples": samples or [{"note": "nothing ran"}],
        **agg,
        "operations_checked": agg["ops"],
        "reach_probes": probes,
        "simulated_addresses": alloc,
        "fault_kinds": {"crash_point_fired": probes.get("fault_fired", 0), "crash_point_armed_not_reached": probes.get("fault_not_reached", 0)},
        "reference_outcomes": ref_outcomes,
        "runs_per_hour": int((agg["histories"] + agg["fresh_replicas"]) / max(wall, 1e-6) * 3600),
        "simulated_time": f"no clock; logical time = {agg['ops']} operations in {agg['processes']} simulated processes",
        "real_components": ["explorerscript (both compilers, both decompilers, cli.decompile.read_routines)", "igraph", "antlr4 runtime"],
        "stub_components": ["id() inside graph_utils (seeded address allocator honouring object lifetimes)", "file system (VFS)", "logging sink"],
    }
    rep.assumptions = [
        "digests compare exception TYPE, not message (ANTLR wording legitimately depends on parser-cache warmth)",
        "a faulted operation itself is not compared; everything after it is",
        "simulated id() reuse only hands out keys of graphs whose finalizer has run",
    ]
