"""importworld - C05, C08, C10 (scoped claims, DESIGN.md 5.4): the compiler and the file system.

The world is an in-memory VFS behind os.path.exists / os.path.realpath / os.getcwd and the `open` of
explorerscript.util; every compile runs in its own forked process with the VFS installed.
"""
from __future__ import annotations

import copy
import json
import os
import posixpath
import random
import resource
import signal

from simkit import model, seeds, sut
from simkit.pool import forkrun, HarnessError, pmap
from simkit.vfs import Vfs
from gen import macrolib

ENGINE = "importworld"
DOCUMENTED = ("ParseError", "SsbCompilerError", "ValueError")
CPU_BUDGET_S = 20


class BudgetExceeded(BaseException):
    pass


def _arm_budget():
    def on_alarm(signum, frame):
        raise BudgetExceeded()

    signal.signal(signal.SIGVTALRM, on_alarm)
    signal.setitimer(signal.ITIMER_VIRTUAL, CPU_BUDGET_S)
    try:
        resource.setrlimit(resource.RLIMIT_AS, (3 << 30, 3 << 30))
    except Exception:
        pass


def _disarm_budget():
    signal.setitimer(signal.ITIMER_VIRTUAL, 0)


def _compile_steps(vfs_dump: dict, steps: list[dict]) -> list[dict]:
    """One simulated process. steps: [{"op": "compile", "main":…, "lookup": […], "slot": 0, "src": optional}
    | {"op": "edit", "write": {path: text}, "remove": [paths], "symlink": {path: target}}].
    Returns one outcome per compile step."""
    sut.quiet_logging()
    vfs = Vfs.load(vfs_dump).install()
    vfs.max_open_files = 64  # far more than any import chain of the worlds needs; an endless chain of imports runs out
    compilers: dict = {}
    outs = []
    for st in steps:
        if st["op"] == "edit":
            for p in st.get("remove", []):
                vfs.remove(p)
            for p, t in st.get("write", {}).items():
                vfs.write(p, t)
            for p, t in st.get("symlink", {}).items():
                vfs.symlink(p, t)
            continue
        if st.get("cwd"):
            vfs.cwd = st["cwd"]  # the caller changed its working directory before this compile
        slot = st.get("slot")
        lookup = st.get("lookup") or []
        if slot is None or slot not in compilers:
            c = sut.new_compiler(lookup)
            if slot is not None:
                compilers[slot] = c
        else:
            c = compilers[slot]
            c.lookup_paths[:] = lookup
        before = {a: getattr(c, a) for a in ("routine_ops", "routine_infos", "named_coroutines", "source_map")}
        before_digest = None
        if before["routine_ops"] is not None:
            try:
                before_digest = model.canon(model.compile_digest(c))
            except Exception:
                before_digest = None
        src = st.get("src")
        if src is None:
            with vfs.open(st["main"], "r", encoding="utf-8") as f:
                src = f.read()
        _arm_budget()
        try:
            try:
                try:
                    c.compile(src, st["main"])
                    out = {"ok": model.compile_digest(c)}
                except BudgetExceeded:
                    raise
                except BaseException as e:
                    if isinstance(e, (KeyboardInterrupt, SystemExit)):
                        raise
                    _disarm_budget()
                    out = sut.raised(e)
            except BudgetExceeded:
                out = {"raised": "NO-ANSWER", "msg": f"compile() still running after {CPU_BUDGET_S}s of CPU", "where": "?"}
        finally:
            _disarm_budget()
        if "raised" in out:
            # "never yield output": after a rejection nothing can be read from the object as if it were the result of the
            # rejected program - neither something new nor what an earlier compile on this object left there
            leaks = [a for a in before if getattr(c, a) is not None]
            out["leaks"] = leaks
        out["vfs_counts"] = dict(vfs.counts)
        if "ok" in out and st.get("want_usage"):
            from explorerscript.included_usage_map import IncludedUsageMap

            out["included_files"] = sorted(IncludedUsageMap(c.source_map, st["main"]).included_files)
        outs.append(out)
        vfs.counts = {}
    return outs


def compile_steps(vfs_dump, steps, timeout=90):
    return forkrun(_compile_steps, vfs_dump, steps, timeout=timeout)


def compile_once(vfs_dump, main, lookup, want_usage=False, src=None):
    return compile_steps(vfs_dump, [{"op": "compile", "main": main, "lookup": lookup, "want_usage": want_usage, "src": src}])[0]


def ops_view(digest: dict) -> str:
    """What C05 compares: routine kinds/targets, opcodes, parameters and jump structure (offset-free)."""
    return model.canon({"v": sut.normalise_for_fallback(model.structural_view({"routines": digest["routines"]}))})


def tags_in(digest: dict) -> list[tuple[int, str, str, str]]:
    """(offset, macro, variant, n) for every tagged op of the output."""
    out = []
    for r in digest["routines"]:
        for o in r["ops"]:
            nm = o["op"]
            if nm.startswith("t_"):
                body = nm[2:]
                macro, variant, n = body.rsplit("_", 2)
                out.append((o["off"], macro, variant, n))
    return out


# ---- C05 ------------------------------------------------------------------------------------------


def _single_vfs(src: str) -> dict:
    v = Vfs("/proj")
    v.write("/proj/SCRIPT/main.exps", src)
    return v.dump()


def c05_run(item: dict) -> dict:
    run_seed, tier = item["run_seed"], item["tier"]
    rng = seeds.stream(run_seed, "lib")
    lib = macrolib.gen_lib(rng, item.get("shape"))
    res = {"run_seed": run_seed, "shape": lib.shape, "n_macros": len(lib.macros), "configs": 0, "violations": [], "kinds": {},
           "vfs_calls": 0, "import_styles": {}, "edit_histories": 0}

    def viol(clause, kind, payload, shape=None):
        sig = {"clause": clause, "kind": kind}
        if shape:
            sig["shape"] = shape
        res["violations"].append({"sig": sig, "payload": payload})

    ref_src = macrolib.single_file_source(lib, lib.order)
    ref = compile_once(_single_vfs(ref_src), "/proj/SCRIPT/main.exps", [])
    res["configs"] += 1
    if "raised" in ref:
        # the reference configuration (callee-first, one file) is itself rejected: the claim has no anchor
        viol("reference-configuration", f"raised:{ref['raised']}", {"source": ref_src, "observed": ref})
        return res
    ref_view = ops_view(ref["ok"])
    res["ref_ops"] = sum(len(r["ops"]) for r in ref["ok"]["routines"])
    # (0) the anchor: the reference configuration against the program in which every call is replaced, textually and
    #     independently of the compiler, by the macro's body (arguments substituted, `return` leaving only the macro,
    #     labels renamed per expansion)
    inl_src = macrolib.inlined_source(lib)
    inl = compile_once(_single_vfs(inl_src), "/proj/SCRIPT/main.exps", [])
    res["configs"] += 1
    if "ok" in inl:
        res["kinds"]["textual-inlining"] = res["kinds"].get("textual-inlining", 0) + 1
        if ops_view(inl["ok"]) != ref_view:
            viol("macro-call-equals-inlined-body", "ops-differ", {"source": ref_src, "inlined_source": inl_src},
                 shape="outer-parameter-named-like-a-variable-of-a-nested-callee" if lib.captures() else None)
    else:
        # a string argument that reaches a condition through two levels of parameters has no textual counterpart
        res["kinds"]["textual-inlining-not-expressible"] = res["kinds"].get("textual-inlining-not-expressible", 0) + 1
    # (a) definition order
    prng = seeds.stream(run_seed, "perm")
    names = list(lib.macros)
    n_perm = item.get("n_perm", 3 if tier == "quick" else 8)
    perms = []
    if len(names) <= 4 and tier == "thorough":
        import itertools

        perms = [list(p) for p in itertools.permutations(names)]
    else:
        perms.append(list(reversed(lib.order)))  # callers first: the hardest order
        for _ in range(n_perm - 1):
            p = names[:]
            prng.shuffle(p)
            perms.append(p)
    for p in perms:
        src = macrolib.single_file_source(lib, p)
        o = compile_once(_single_vfs(src), "/proj/SCRIPT/main.exps", [])
        res["configs"] += 1
        res["kinds"]["definition-order"] = res["kinds"].get("definition-order", 0) + 1
        if "raised" in o:
            viol("definition-order", f"raised:{o['raised']}", {"order": p, "source": src, "observed": {k: o[k] for k in ('raised', 'msg', 'where')}})
        elif ops_view(o["ok"]) != ref_view:
            viol("definition-order", "ops-differ", {"order": p, "source": src})
    # (b) file layouts + import styles + lookup order + symlinks
    wrng = seeds.stream(run_seed, "world")
    n_worlds = item.get("n_worlds", 3 if tier == "quick" else 8)
    worlds = []
    for _ in range(n_worlds):
        w = macrolib.gen_world(lib, wrng)
        worlds.append(w)
        o = compile_once(w.vfs.dump(), w.main, w.lookup)
        res["configs"] += 1
        res["kinds"]["file-layout"] = res["kinds"].get("file-layout", 0) + 1
        res["vfs_calls"] += sum(o.get("vfs_counts", {}).values())
        for info in w.files.values():
            for st, _, _ in info["imports"]:
                res["import_styles"][st] = res["import_styles"].get(st, 0) + 1
        if "raised" in o:
            viol("file-layout", f"raised:{o['raised']}", {"world": w.dump(), "observed": {k: o[k] for k in ('raised', 'msg', 'where')}})
        elif ops_view(o["ok"]) != ref_view:
            viol("file-layout", "ops-differ", {"world": w.dump()})
    # (c) lookup order decides between two files of the same relative name
    for order in ([0, 1], [1, 0]):
        sw = shadow_world(lib, seeds.stream(run_seed, "shadow"), order)
        exp_src = macrolib.single_file_source(lib, lib.order, sw["variants"])
        exp = compile_once(_single_vfs(exp_src), "/proj/SCRIPT/main.exps", [])
        o = compile_once(sw["vfs"], sw["main"], sw["lookup"])
        res["configs"] += 2
        res["kinds"]["lookup-order"] = res["kinds"].get("lookup-order", 0) + 1
        if "raised" in exp:
            continue
        if "raised" in o:
            viol("lookup-order", f"raised:{o['raised']}", {"world": sw, "observed": {k: o[k] for k in ('raised', 'msg', 'where')}})
        elif ops_view(o["ok"]) != ops_view(exp["ok"]):
            viol("lookup-order", "ops-differ", {"world": sw, "expected_variants": sw["variants"]})
    # (c') the compiled file re-defines a macro name that an imported file also defines: its own definition is the one
    #      that every call in the compiled file means - also calls from its other macros, whatever the definition order
    ov = override_world(lib, seeds.stream(run_seed, "override"))
    if ov is not None:
        exp = compile_once(_single_vfs(ov["expected_src"]), "/proj/SCRIPT/main.exps", [])
        o = compile_once(ov["vfs"], "/proj/SCRIPT/main.exps", [])
        res["configs"] += 2
        res["kinds"]["own-definition-overrides-import"] = res["kinds"].get("own-definition-overrides-import", 0) + 1
        if "ok" in exp:
            if "raised" in o:
                viol("own-definition-overrides-import", f"raised:{o['raised']}", {"world": ov, "observed": {k: o[k] for k in ('raised', 'msg', 'where')}})
            elif ops_view(o["ok"]) != ops_view(exp["ok"]):
                viol("own-definition-overrides-import", "ops-differ", {"world": ov})
    # (c'') a sibling `./x.exps` and a lookup-path `x.exps` are two different imports, both must be read
    tw = twin_names_world(lib, seeds.stream(run_seed, "twins"))
    if tw is not None:
        o = compile_once(tw["vfs"], "/proj/SCRIPT/main.exps", tw["lookup"])
        res["configs"] += 1
        res["kinds"]["sibling-and-lookup-file-of-one-name"] = res["kinds"].get("sibling-and-lookup-file-of-one-name", 0) + 1
        if "raised" in o:
            viol("sibling-and-lookup-file-of-one-name", f"raised:{o['raised']}", {"world": tw, "observed": {k: o[k] for k in ('raised', 'msg', 'where')}})
        elif ops_view(o["ok"]) != ref_view:
            viol("sibling-and-lookup-file-of-one-name", "ops-differ", {"world": tw})
    # (d) worlds edited between compiles on ONE reused compiler: nothing survives from the previous world
    if worlds:
        erng = seeds.stream(run_seed, "edit")
        for hist in range(1 if tier == "quick" else 3):
            w0 = erng.choice(worlds)
            w1 = macrolib.gen_world(lib, erng)
            steps = [{"op": "compile", "main": w0.main, "lookup": w0.lookup, "slot": 0},
                     {"op": "edit", "remove": [p for p in w0.vfs.nodes if p not in ("/",)],
                      "write": {p: n[1].decode() for p, n in w1.vfs.nodes.items() if n[0] == "f"},
                      "symlink": {p: n[1] for p, n in w1.vfs.nodes.items() if n[0] == "l"}},
                     {"op": "compile", "main": w1.main, "lookup": w1.lookup, "slot": 0}]
            outs = compile_steps(w0.vfs.dump(), steps)
            fresh = compile_once(w1.vfs.dump(), w1.main, w1.lookup)
            res["configs"] += 3
            res["edit_histories"] += 1
            res["kinds"]["edited-world"] = res["kinds"].get("edited-world", 0) + 1
            a, b = outs[1], fresh
            if ("ok" in a) != ("ok" in b) or ("ok" in a and model.canon(a["ok"]) != model.canon(b["ok"])) or \
                    ("raised" in a and a["raised"] != b["raised"]):
                viol("edited-world", "differs-from-pristine", {"world0": w0.dump(), "world1": w1.dump()})
    return res


def override_world(lib: macrolib.Lib, rng: random.Random) -> dict | None:
    """main holds the whole library; an imported file defines OTHER bodies (tags 'imp') for some of the same names.
    Expected: exactly what main alone (without the import) compiles to."""
    names = list(lib.macros)
    if len(names) < 2:
        return None
    clash = rng.sample(names, rng.randint(1, max(1, len(names) // 2)))
    order = names[:]
    rng.shuffle(order)
    v = Vfs("/proj")
    # the imported definitions are self-contained (no calls): only their names clash
    imp = "\n\n".join(f"macro {nm}({', '.join(lib.macros[nm].params)}) {{\n    t_{nm}_imp_0();\n}}" for nm in clash) + "\n"
    v.write("/proj/SCRIPT/lib/clash.exps", imp)
    own = macrolib.single_file_source(lib, order)
    v.write("/proj/SCRIPT/main.exps", 'import "./lib/clash.exps";\n\n' + own)
    return {"vfs": v.dump(), "clash": clash, "order": order, "expected_src": own}


def twin_names_world(lib: macrolib.Lib, rng: random.Random) -> dict | None:
    """Half of the library in `./part.exps` next to main, the other half in `part.exps` under a lookup path; main imports
    both (in either order). Callees sit in the lookup file so that no import between the two is needed."""
    names = lib.order[:]  # callee-first
    if len(names) < 2:
        return None
    cut = rng.randint(1, len(names) - 1)
    low, high = names[:cut], names[cut:]  # `high` may call `low`
    v = Vfs("/proj")
    v.write("/proj/macros/part.exps", macrolib.render_file(lib, low, [], {}, False))
    v.write("/proj/SCRIPT/part.exps", macrolib.render_file(lib, high, ["part.exps"], {}, False))
    imps = ['import "./part.exps";', 'import "part.exps";']
    if rng.random() < 0.5:
        imps.reverse()
    v.write("/proj/SCRIPT/main.exps", "\n".join(imps) + "\n\n" + lib.main_body() + "\n")
    return {"vfs": v.dump(), "lookup": ["/proj/macros"], "import_order": imps}


def shadow_world(lib: macrolib.Lib, rng: random.Random, order: list[int]) -> dict:
    """The same relative name `pack/util.exps` under two lookup paths with different bodies (tags a / b)."""
    L = ["/proj/macros", "/opt/shared"]
    names = list(lib.macros)
    v = Vfs("/proj")
    lookup = [L[i] for i in order]
    first_variant = "ab"[order[0]]
    for i, d in enumerate(L):
        v.write(posixpath.join(d, "pack/util.exps"), macrolib.render_file(lib, lib.order, [], {nm: "ab"[i] for nm in names}, False))
    v.write("/proj/unlisted/pack/util.exps", macrolib.render_file(lib, lib.order, [], {nm: "decoy" for nm in names}, False))
    # an earlier import that exists only under the LAST lookup path must not influence where the next one is looked for
    v.write(posixpath.join(L[order[-1]], "only_here.exps"), "macro only_here() {\n    only_here_op();\n}\n")
    main_txt = 'import "only_here.exps";\nimport "pack/util.exps";\n\n' + lib.main_body() + "\n"
    v.write("/proj/SCRIPT/main.exps", main_txt)
    return {"vfs": v.dump(), "main": "/proj/SCRIPT/main.exps", "lookup": lookup, "variants": {nm: first_variant for nm in names}}


def _real_compile(td: str, main: str, lookup: list[str]) -> dict:
    """Compile on the REAL file system (no VFS installed): used to validate the stub."""
    sut.quiet_logging()
    from explorerscript.included_usage_map import IncludedUsageMap

    c = sut.new_compiler([td + p for p in lookup])
    with open(td + main, encoding="utf-8") as f:
        src = f.read()
    try:
        c.compile(src, td + main)
    except Exception as e:
        return sut.raised(e)
    # same footing as the simulated run: textual paths, only the temp-directory prefix removed
    inc = sorted(p[len(td):] if p.startswith(td) else p for p in IncludedUsageMap(c.source_map, td + main).included_files)
    return {"ok": model.compile_digest(c), "included_files": inc}


def real_fs_validation(item: dict) -> dict:
    """A generated world materialised in a real temp directory must compile to the same ops, the same
    macro-entry file attribution and the same included files as on the VFS stub."""
    import tempfile

    rng = seeds.stream(item["run_seed"], "lib")
    lib = macrolib.gen_lib(rng, item.get("shape"))
    w = macrolib.gen_world(lib, seeds.stream(item["run_seed"], "world"))
    sim = compile_once(w.vfs.dump(), w.main, w.lookup, want_usage=True)
    res = {"validated": 0, "mismatch": []}
    with tempfile.TemporaryDirectory(prefix="importworld-") as td:
        td = os.path.realpath(td)
        for p, n in w.vfs.nodes.items():
            if n[0] == "d":
                os.makedirs(td + p, exist_ok=True)
        for p, n in w.vfs.nodes.items():
            if n[0] == "f":
                os.makedirs(os.path.dirname(td + p), exist_ok=True)
                with open(td + p, "w", encoding="utf-8", newline="") as f:
                    f.write(n[1].decode().replace('import "/', f'import "{td}/').replace("import '/", f"import '{td}/"))
            elif n[0] == "l":
                os.makedirs(os.path.dirname(td + p), exist_ok=True)
                os.symlink(td + n[1] if n[1].startswith("/") else n[1], td + p)
        real = forkrun(_real_compile, td, w.main, w.lookup, timeout=120)
    res["validated"] = 1
    if ("ok" in sim) != ("ok" in real):
        res["mismatch"].append({"run_seed": item["run_seed"], "sim": sim.get("raised", "ok"), "real": real.get("raised", "ok")})
    elif "ok" in sim:
        if ops_view(sim["ok"]) != ops_view(real["ok"]):
            res["mismatch"].append({"run_seed": item["run_seed"], "what": "ops differ"})
        rel_sim = sorted({(str(v[0]), v[1]) for v in sim["ok"]["source_map"]["macros"]["map"].values()})
        rel_real = sorted({(str(v[0]), v[1]) for v in real["ok"]["source_map"]["macros"]["map"].values()})
        if rel_sim != rel_real:
            res["mismatch"].append({"run_seed": item["run_seed"], "what": "macro entry files differ", "sim": rel_sim[:4], "real": rel_real[:4]})
        if sorted(sim.get("included_files", [])) != real.get("included_files"):
            res["mismatch"].append({"run_seed": item["run_seed"], "what": "included files differ", "sim": sim.get("included_files"), "real": real.get("included_files")})
    return res


# ---- C08 ------------------------------------------------------------------------------------------


def c08_judge(world: macrolib.World, out: dict) -> list[dict]:
    """File attribution clauses of C08 on one successful world compile."""
    v = world.vfs
    problems = []
    dg = out["ok"]
    sm = dg["source_map"]
    main_real = v._resolve(world.main)[0]
    base_dir = posixpath.dirname(world.main)
    macro_map = sm["macros"]["map"]
    direct = sm["map"]
    contributing = set()
    for off, macro, variant, n in tags_in(dg):
        ent = macro_map.get(str(off))
        if ent is None:
            problems.append({"clause": "macro-op-has-macro-entry", "detail": f"op {off} t_{macro}_{variant}_{n} has {'a direct' if str(off) in direct else 'no'} entry"})
            continue
        if str(off) in direct:
            # an op that comes from a macro is described by its macro entry alone: a second, direct entry under the same
            # offset (which look-ups prefer) says it was written in the compiled file
            problems.append({"clause": "macro-op-has-no-direct-entry", "detail": f"op {off} t_{macro}_{variant}_{n} also has the direct entry {direct[str(off)]}"})
        rel, mname = ent[0], ent[1]
        defining = v._resolve(world.file_of[macro])[0]
        if defining != main_real:
            contributing.add(defining)
        if mname != macro:
            problems.append({"clause": "entry-names-the-macro", "detail": f"op {off}: entry says {mname}, tag says {macro}"})
        if defining == main_real:
            if rel is not None:
                problems.append({"clause": "null-for-the-same-file", "detail": f"op {off}: {rel!r} for a macro of the compiled file"})
        else:
            if rel is None:
                problems.append({"clause": "names-defining-file", "detail": f"op {off}: null for macro {macro} defined in {defining}"})
            else:
                got = posixpath.normpath(posixpath.join(base_dir if base_dir.startswith("/") else posixpath.join(v.cwd, base_dir), rel))
                if got != defining:
                    problems.append({"clause": "names-defining-file", "detail": f"op {off}: {rel!r} -> {got}, macro {macro} is defined in {defining}"})
    # the call site recorded on the first op of an expansion names a file too: at that line and column of that file a macro
    # call must be written, and the macro called there must be the one whose expansion this op starts (its own first op,
    # or - for a macro that begins with a call - the first op of that callee, and so on)
    import re as _re

    for off_s, ent in macro_map.items():
        called_in = ent[4]
        if not called_in:
            continue
        rel, line, col = called_in
        path = main_real if rel is None else posixpath.normpath(posixpath.join(base_dir if base_dir.startswith("/") else posixpath.join(v.cwd, base_dir), rel))
        rp, ex = v._resolve(path)
        if not ex or v.nodes[rp][0] != "f":
            problems.append({"clause": "call-site-names-the-calling-file", "detail": f"op {off_s}: called_in {called_in} names no file"})
            continue
        lines_ = v.nodes[rp][1].decode().split("\n")
        text = lines_[line][col:] if 0 <= line < len(lines_) else ""
        m_ = _re.match(r"~([A-Za-z_][A-Za-z0-9_]*)", text)
        if not m_:
            problems.append({"clause": "call-site-names-the-calling-file", "detail": f"op {off_s}: no macro call at {rp}:{line}:{col} ({text[:30]!r})"})
            continue
        lib = getattr(world, "lib", None)
        if lib is not None and m_.group(1) in lib.macros:
            name = m_.group(1)
            seen_ = set()
            while (lib.macros[name].call_first and lib.macros[name].callees and name not in seen_
                   and not lib.macros[lib.macros[name].callees[0]].label_only):
                seen_.add(name)
                name = lib.macros[name].callees[0]
            if name != ent[1]:
                problems.append({"clause": "call-site-names-the-calling-file",
                                 "detail": f"op {off_s} belongs to macro {ent[1]}, the call at {rp}:{line}:{col} starts an expansion of {name}"})
    # ... and every expansion that emits an op has such a call site on its first op (which ops these are is known from the
    # structure of the library; nested expansions beginning with the same op share one)
    lib = getattr(world, "lib", None)
    if lib is not None and getattr(world, "judge_starts", True):
        from collections import Counter as _C

        want = _C(macrolib.expansion_starts(lib))
        got = _C((macro, n) for off, macro, variant, n in tags_in(dg) if (macro_map.get(str(off)) or [None] * 5)[4])
        missing = want - got
        if missing:
            problems.append({"clause": "expansion-start-carries-the-call-site",
                             "detail": f"first ops of expansions without called_in: {sorted(missing.items())[:4]}"})
    # return addresses (necessary conditions that need no model of the expansion): within a routine, a maximal run of
    # consecutive ops that come from macros is one or several complete expansions in a row; the largest return address in
    # the run belongs to an outermost expansion that ends with the run, so it lies after the run's last op and not after
    # the op that follows the run (it may be the number of an op dropped in between); every op's own return address
    # lies after that op and not after the largest one
    for r_ in dg["routines"]:
        offs = [o_["off"] for o_ in r_["ops"]]
        i_ = 0
        while i_ < len(offs):
            if str(offs[i_]) not in macro_map:
                i_ += 1
                continue
            j_ = i_
            while j_ + 1 < len(offs) and str(offs[j_ + 1]) in macro_map:
                j_ += 1
            run = offs[i_:j_ + 1]
            ras = [macro_map[str(o_)][5] for o_ in run]
            if any(not isinstance(x, int) for x in ras):
                problems.append({"clause": "return-address-bounds", "detail": f"ops {run[0]}..{run[-1]}: a macro entry without return address"})
            else:
                last_ra = ras[-1]
                nxt = offs[j_ + 1] if j_ + 1 < len(offs) else None
                if not (last_ra > run[-1] and (nxt is None or last_ra <= nxt)):
                    problems.append({"clause": "return-address-bounds",
                                     "detail": f"run {run[0]}..{run[-1]} (next op {nxt}): return address of its last op is {last_ra}"})
                for o_, ra in zip(run, ras):
                    if not (ra > o_ and (nxt is None or ra <= nxt)):
                        problems.append({"clause": "return-address-bounds", "detail": f"op {o_}: return address {ra} (run ends at {run[-1]}, next op {nxt})"})
                        break
            i_ = j_ + 1
    inc = set(out.get("included_files", []))
    if inc != contributing:
        problems.append({"clause": "included-files-are-the-contributing-files",
                         "detail": f"included_files={sorted(inc)} contributing={sorted(contributing)}"})
    return problems


def c08_run(item: dict) -> dict:
    run_seed, tier = item["run_seed"], item["tier"]
    rng = seeds.stream(run_seed, "lib")
    lib = macrolib.gen_lib(rng, item.get("shape"))
    res = {"run_seed": run_seed, "shape": lib.shape, "configs": 0, "violations": [], "kinds": {}, "macro_entries": 0,
           "edits": {"changed": 0, "unchanged": 0}, "files_contributing": 0}
    wrng = seeds.stream(run_seed, "world8")
    erng = seeds.stream(run_seed, "edit8")
    for wi in range(item.get("n_worlds", 4 if tier == "quick" else 10)):
        knobs = {}
        if wi == 0:
            knobs = {"files": max(2, min(5, len(lib.macros)))}
        w = macrolib.gen_world(lib, wrng, knobs)
        files = [p for p in w.files if p != list(w.files)[0]]
        steps = [{"op": "compile", "main": w.main, "lookup": w.lookup, "slot": 0, "want_usage": True}]
        edited = None
        if files:
            edited = erng.choice(files)
            info = w.files[edited]
            new_txt = macrolib.render_file(lib, info["macros"], [t for _, t, _ in info["imports"]],
                                           {nm: "e" for nm in info["macros"]}, False)
            steps += [{"op": "edit", "write": {edited: new_txt}},
                      {"op": "compile", "main": w.main, "lookup": w.lookup, "slot": erng.choice([0, 1]), "want_usage": True}]
        # a second script in another directory, importing the same files, compiled on the same compiler object before the
        # script under observation (attribution must be relative to the script being compiled, not to an earlier one)
        if erng.random() < 0.5:
            import posixpath as pp

            first = list(w.files)[0]
            alt = erng.choice(["/proj/SCRIPT/deep/er/alt.exps", "/proj/alt_top.exps", "/opt/elsewhere/x/alt.exps"])
            imps = []
            for st_, text, tgt in w.files[first]["imports"]:
                if st_ == "rel":
                    r_ = pp.relpath(tgt, pp.dirname(alt))
                    imps.append(r_ if r_.startswith("..") else "./" + r_)
                else:
                    imps.append(text)
            w.vfs.write(alt, macrolib.render_file(lib, w.files[first]["macros"], imps, w.variant_of, True))
            steps.insert(0, {"op": "compile", "main": alt, "lookup": w.lookup, "slot": 0})
            if erng.random() < 0.5 and w.vfs._resolve(w.main)[0] == w.main:
                # a batch build that changes into each script's directory and names the script by its base name
                steps[0].update({"main": pp.basename(alt), "cwd": pp.dirname(alt), "slot": erng.choice([0, 5])})
                for st_ in steps[1:]:
                    if st_["op"] == "compile":
                        st_.update({"main": pp.basename(w.main), "cwd": pp.dirname(w.main)})
                res["kinds"]["relative-names-after-chdir"] = res["kinds"].get("relative-names-after-chdir", 0) + 1
        outs = compile_steps(w.vfs.dump(), steps)
        res["configs"] += len(outs)
        if len([s_ for s_ in steps if s_["op"] == "compile"]) > (2 if edited is not None else 1):
            outs = outs[1:]
            res["kinds"]["after-other-script-on-same-compiler"] = res["kinds"].get("after-other-script-on-same-compiler", 0) + 1
        o = outs[0]
        if "raised" in o:
            # whether the layout compiles at all is C05's business; here it only means nothing to judge
            res["kinds"]["rejected-world"] = res["kinds"].get("rejected-world", 0) + 1
            continue
        res["kinds"]["attribution"] = res["kinds"].get("attribution", 0) + 1
        res["macro_entries"] += len(o["ok"]["source_map"]["macros"]["map"])
        res["vfs_calls"] = res.get("vfs_calls", 0) + sum(sum(x.get("vfs_counts", {}).values()) for x in outs)
        res["files_contributing"] += len(o.get("included_files", []))
        for pr in c08_judge(w, o):
            res["violations"].append({"sig": {"clause": pr["clause"]}, "payload": {"world": w.dump(), "detail": pr["detail"]}})
        if edited is not None and len(outs) > 1 and "ok" in outs[1]:
            res["kinds"]["edit-history"] = res["kinds"].get("edit-history", 0) + 1
            changed = ops_view(outs[1]["ok"]) != ops_view(o["ok"])
            res["edits"]["changed" if changed else "unchanged"] += 1
            edited_real = w.vfs._resolve(edited)[0]
            had_ops = any(w.vfs._resolve(w.file_of[m])[0] == edited_real for _, m, _, _ in tags_in(o["ok"]))
            inc = set(o.get("included_files", []))
            if changed and edited_real not in inc:
                res["violations"].append({"sig": {"clause": "edit-of-unlisted-file-changed-output"},
                                          "payload": {"world": w.dump(), "edited": edited, "included_files": sorted(inc)}})
            if had_ops and not changed:
                res["violations"].append({"sig": {"clause": "edit-of-contributing-file-ignored"},
                                          "payload": {"world": w.dump(), "edited": edited}})
    return res


# ---- C10 ------------------------------------------------------------------------------------------

VALID_MAIN = "def 0 {\n    ok_main_0();\n    end;\n}\n"
VALID_OTHER = "macro okm($a) {\n    ok_m($a);\n}\n\ndef 0 {\n    ok_other_0();\n    ~okm(3);\n    if ($X == 1) {\n        ok_other_1();\n    }\n    end;\n}\n"

# statements that make a routine or macro body statically meaningless (one constructor per item of C10's list)
INVALID_BODIES = {
    "break_outside_case": "break;",
    "break_in_loop_not_case": "forever { break; }",
    "continue_outside_loop": "continue;",
    "break_loop_outside_loop": "break_loop;",
    "continue_in_case_outside_loop": "switch ($A) { case 1: continue; }",
    "jump_undefined_label": "jump @nowhere;",
    "call_undefined_label": "call @nowhere;",
    "switch_ends_in_empty_case": "switch ($A) { case 1: a(); case 2: }",
    "switch_ends_in_empty_default": "switch ($A) { case 1: a(); default: }",
    "two_defaults": "switch ($A) { default: a(); default: b(); }",
    "statement_in_message_switch": "message_SwitchTalk ($A) { case 1: a(); }",
    "label_in_with_block": "with (actor 1) { @l; }",
    "not_on_bit_of_ordinary_variable": "if (not $A[1]) { a(); }",
    "not_on_bit_under_a_negated_if": "if not (not $A[1]) { a(); }",
    "not_on_bit_in_elseif": "if ($B == 1) { a(); } elseif (not $A[1]) { b(); }",
    "not_on_bit_under_a_negated_elseif": "if ($B == 1) { a(); } elseif not (not $A[1]) { b(); }",
    "not_on_bit_in_while": "while (not $A[1]) { a(); }",
    "not_on_bit_under_while_not": "while not (not $A[1]) { a(); }",
    "not_on_bit_among_alternatives": "if ($B == 1 || not $A[1]) { a(); }",
    "not_on_bit_in_for": "for (i(); not $A[1]; n();) { a(); }",
    "jump_to_label_of_another_macro": "jump @owned;",
    "jump_to_label_of_a_called_macro": "~owner(); jump @owned;",
    "call_to_label_of_another_macro": "call @owned;",
    "jump_to_label_of_a_routine_from_macro_scope": "@in_body; a(); ~jumper();",
    "unknown_macro": "~no_such_macro();",
    "too_few_macro_arguments": "~two_args(1);",
    "too_few_macro_arguments_for_an_unused_parameter": "~second_unused(1);",
    "no_macro_argument_for_an_unused_parameter": "~only_unused();",
    "too_few_macro_arguments_hidden_by_a_repeated_parameter_name": "~dup_params(1);",
    "syntax_error": "a(;",
}
TWO_ARGS = ("macro two_args($a, $b) {\n    x($a, $b);\n}\nmacro second_unused($a, $b) {\n    x($a);\n}\n"
            "macro only_unused($a) {\n    x(30);\n}\n")
# (on its own: a definition that is itself rejected must not sit next to the other entries' helpers and mask them)
DUP_PARAMS = "macro dup_params($x, $x) {\n    f($x);\n}\n"
# helper macros of the label-scope entries: `owner` defines a label, `jumper` jumps to a label that only its caller defines
LABEL_MACROS = "macro owner() {\n    @owned;\n    o();\n}\n"
JUMPER_MACRO = "macro jumper() {\n    jump @in_body;\n}\n"

# closed, valid constructs that may precede an offending statement (in the same routine or in an earlier one): what was
# opened and closed before must not make a stray control statement, label reference or macro call acceptable
PREFIXES = {
    "nothing": "",
    "forever": "forever { p1(); if ($P == 1) { break_loop; } }",
    "while": "while ($P == 1) { p1(); continue; }",
    "while_not": "while not ($P == 1) { p1(); }",
    "while_not_break": "while not ($P < 2) { p1(); if (debug) { break_loop; } }",
    "for": "for (p0(); $P < 3; p2();) { p1(); }",
    "nested_loops": "forever { while not ($Q == 1) { p1(); } break_loop; }",
    "switch_break": "switch ($P) { case 1: p1(); break; default: p2(); break; }",
    "switch_fall": "switch (random(3)) { case 1: case 2: p1(); default: p2(); }",
    "message_switch": "message_SwitchTalk ($P) { case 1: 'a' default: 'b' }",
    "if_else": "if ($P == 1) { p1(); } elseif not ($P[2]) { p2(); } else { p3(); }",
    "with": "with (actor 2) { p1(); }",
    "label_jump": "@known; p1(); if ($P == 1) { jump @known; }",
    "macro_call": "~fine(1);",
    "macro_with_loop": "~loops();",
    # statements that end control flow: what follows them is unreachable, not unchecked
    "end": "p1(); end;",
    "return": "p1(); return;",
    "hold": "hold;",
    "jump_back": "@again; p1(); jump @again;",
    "switch_fall_then_op": "switch ($P) { case 1: case 2: p1(); break; default: p2(); } p3();",
}
PREFIX_MACROS = "macro fine($a) {\n    f($a);\n}\nmacro loops() {\n    while not ($M == 1) {\n        l();\n    }\n    forever {\n        break_loop;\n    }\n    switch ($M) {\n        case 1:\n            l();\n            break;\n    }\n}\n"

VALID_BODIES = {
    # accepted shapes that must keep being answered (success or a documented exception) wherever they sit
    "posmark_macro_called_from_macro": None,  # built specially
    "plain": "a(1, 'x');",
    "nested_blocks": "if ($A == 1) { forever { b(); break_loop; } } else { switch ($B) { case 1: c(); break; default: d(); } }",
}


def _wrap(body: str, where: str, name: str = "bad") -> str:
    if where == "routine":
        return f"def 0 {{\n    pre();\n    {body}\n    end;\n}}\n"
    return f"macro {name}() {{\n    pre_m();\n    {body}\n}}\n"


def c10_worlds(rng: random.Random) -> list[dict]:
    """[{name, vfs, main, lookup, expect: 'reject'|'answer'}] - import graphs and placements of offending statements."""
    out = []

    def W(name, files: dict, main="/proj/SCRIPT/main.exps", lookup=None, links=None, expect="reject", repair=None):
        v = Vfs("/proj")
        for p, t in files.items():
            v.write(p, t)
        for p, t in (links or {}).items():
            v.symlink(p, t)
        out.append({"name": name, "vfs": v.dump(), "main": main, "lookup": lookup or [], "expect": expect, "repair": repair})

    M = "/proj/SCRIPT/main.exps"
    use = "def 0 {\n    ~lm();\n    end;\n}\n"
    leaf = "macro lm() {\n    leaf_op();\n}\n"
    # import graph shapes
    W("self_import", {M: 'import "./main.exps";\n' + VALID_MAIN})
    W("cycle_2", {M: 'import "./a.exps";\n' + VALID_MAIN, "/proj/SCRIPT/a.exps": 'import "./main.exps";\n' + leaf})
    W("cycle_2_macro_files", {M: 'import "./a.exps";\n' + use, "/proj/SCRIPT/a.exps": 'import "./b.exps";\n' + leaf,
                              "/proj/SCRIPT/b.exps": 'import "./a.exps";\nmacro other() { o(); }\n'})
    W("cycle_3", {M: 'import "./a.exps";\n' + use, "/proj/SCRIPT/a.exps": 'import "../macros/b.exps";\n' + leaf,
                  "/proj/macros/b.exps": 'import "/proj/SCRIPT/c.exps";\nmacro mb() { o(); }\n',
                  "/proj/SCRIPT/c.exps": 'import "a.exps";\nmacro mc() { o(); }\n'}, lookup=["/proj/SCRIPT"])
    W("cycle_through_symlink_alias", {M: 'import "./a.exps";\n' + use, "/proj/SCRIPT/a.exps": 'import "/proj/alias/b.exps";\n' + leaf,
                                      "/proj/real/b.exps": 'import "/proj/SCRIPT/a.exps";\nmacro mb() { o(); }\n'},
      links={"/proj/alias": "/proj/real"})
    # the same cycles with the compiled file, or the lookup path, named through a symlinked directory
    W("self_import_main_named_through_symlink", {M: 'import "./main.exps";\n' + VALID_MAIN}, main="/proj/S/main.exps", links={"/proj/S": "/proj/SCRIPT"})
    W("cycle_2_main_named_through_symlink", {M: 'import "./a.exps";\n' + VALID_MAIN, "/proj/SCRIPT/a.exps": 'import "./main.exps";\n' + leaf},
      main="/proj/S/main.exps", links={"/proj/S": "/proj/SCRIPT"})
    W("cycle_2_macro_files_main_named_through_symlink", {M: 'import "./a.exps";\n' + use, "/proj/SCRIPT/a.exps": 'import "./b.exps";\n' + leaf,
                                                         "/proj/SCRIPT/b.exps": 'import "./a.exps";\nmacro other() { o(); }\n'},
      main="/proj/S/main.exps", links={"/proj/S": "/proj/SCRIPT"})
    W("cycle_through_symlinked_lookup_path", {M: 'import "a.exps";\n' + use, "/proj/real_macros/a.exps": 'import "b.exps";\n' + leaf,
                                              "/proj/real_macros/b.exps": 'import "a.exps";\nmacro other() { o(); }\n'},
      lookup=["/proj/macros_link"], links={"/proj/macros_link": "/proj/real_macros"})
    W("acyclic_main_named_through_symlink", {M: 'import "./a.exps";\n' + use, "/proj/SCRIPT/a.exps": 'import "./b.exps";\n' + leaf,
                                             "/proj/SCRIPT/b.exps": "macro other() { o(); }\n"},
      main="/proj/S/main.exps", links={"/proj/S": "/proj/SCRIPT"}, expect="accept")
    for depth in (0, 1, 2):
        files = {M: 'import "./d1.exps";\n' + use, "/proj/SCRIPT/d1.exps": 'import "./d2.exps";\n' + leaf,
                 "/proj/SCRIPT/d2.exps": "macro m2() { o(); }\n"}
        tgt = [M, "/proj/SCRIPT/d1.exps", "/proj/SCRIPT/d2.exps"][depth]
        files[tgt] = 'import "./gone.exps";\n' + files[tgt]
        fixed_gone = {"write": {"/proj/SCRIPT/gone.exps": "macro was_gone() {\n    g_op();\n}\n"}}
        W(f"missing_file_depth_{depth}", files, repair=fixed_gone)
        files2 = dict(files)
        W(f"dangling_symlink_depth_{depth}", files2, links={"/proj/SCRIPT/gone.exps": "/proj/nowhere/x.exps"},
          repair={"remove": ["/proj/SCRIPT/gone.exps"], **fixed_gone})
    W("missing_in_lookup_paths", {M: 'import "lib/x.exps";\n' + VALID_MAIN, "/proj/unlisted/lib/x.exps": leaf}, lookup=["/proj/macros", "/opt/shared"])
    # the pinned tree rejects `..` in a lookup-path import; the property does not ask for that, only for an answer
    W("lookup_import_with_dot_segments", {M: 'import "lib/../x.exps";\n' + VALID_MAIN, "/proj/macros/x.exps": leaf}, lookup=["/proj/macros"], expect="answer")
    # missing imports whose path fails for another reason than "no such file"
    W("import_path_runs_through_a_regular_file", {M: 'import "./lib.exps/extra.exps";\n' + VALID_MAIN, "/proj/SCRIPT/lib.exps": leaf})
    W("lookup_import_path_runs_through_a_regular_file", {M: 'import "lib.exps/extra.exps";\n' + VALID_MAIN, "/proj/macros/lib.exps": leaf}, lookup=["/proj/macros"])
    W("import_of_a_self_referencing_symlink", {M: 'import "./loop.exps";\n' + VALID_MAIN}, links={"/proj/SCRIPT/loop.exps": "loop.exps"})
    W("import_through_two_symlinks_pointing_at_each_other", {M: 'import "./d1.exps";\n' + use, "/proj/SCRIPT/d1.exps": 'import "./a.exps";\n' + leaf},
      links={"/proj/SCRIPT/a.exps": "b.exps", "/proj/SCRIPT/b.exps": "a.exps"})
    W("import_of_a_directory", {M: 'import "./lib";\n' + VALID_MAIN, "/proj/SCRIPT/lib/x.exps": leaf})
    W("import_of_a_directory_through_the_lookup_paths", {M: 'import "lib";\n' + VALID_MAIN, "/proj/macros/lib/x.exps": leaf}, lookup=["/proj/macros"])
    W("directory_named_like_the_import_in_an_earlier_lookup_path", {M: 'import "lib.exps";\n' + use, "/proj/a/lib.exps/x.exps": "macro unrelated() { u(); }\n",
                                                                   "/proj/b/lib.exps": leaf}, lookup=["/proj/a", "/proj/b"], expect="accept")
    W("lookup_import_starting_with_a_dot", {M: 'import ".hid/lib.exps";\n' + use, "/proj/macros/.hid/lib.exps": leaf}, lookup=["/proj/macros"], expect="accept")
    W("lookup_import_starting_with_a_dot_is_not_relative", {M: 'import ".hid/lib.exps";\n' + use, "/proj/SCRIPT/.hid/lib.exps": leaf}, lookup=["/proj/macros"])
    for depth in (1, 2):
        files = {M: 'import "./d1.exps";\n' + use, "/proj/SCRIPT/d1.exps": 'import "./d2.exps";\n' + leaf,
                 "/proj/SCRIPT/d2.exps": "macro m2() { o(); }\n"}
        tgt = [None, "/proj/SCRIPT/d1.exps", "/proj/SCRIPT/d2.exps"][depth]
        good = files[tgt]
        files[tgt] += "\ndef 0 {\n    routine_in_import();\n    end;\n}\n"
        W(f"routines_in_imported_file_depth_{depth}", files, repair={"write": {tgt: good}})
        files3 = dict(files)
        files3[tgt] = files3[tgt].replace("def 0 {", "coro C {")
        W(f"coroutine_in_imported_file_depth_{depth}", files3)
    # every offending statement, at every place it can sit
    for nm, body in INVALID_BODIES.items():
        extra = (DUP_PARAMS if "repeated_parameter_name" in nm else TWO_ARGS) if "macro_argument" in nm else (JUMPER_MACRO if nm == "jump_to_label_of_a_routine_from_macro_scope" else LABEL_MACROS if "_to_label_of_" in nm else "")
        if "repeated_parameter_name" not in nm and nm != "jump_to_label_of_a_routine_from_macro_scope":  # (there the helper IS the offence)
            # control: the helper definitions of this entry are themselves accepted (a helper that is rejected on its own
            # would make every placement of the entry "rejected" for the wrong reason - it happened twice)
            W(f"control:helpers_of:{nm}", {M: extra + _wrap("control_op();", "routine")}, expect="accept")
        W(f"{nm}@main_routine", {M: extra + _wrap(body, "routine")})
        W(f"{nm}@routine_for_named_actor", {M: extra + _wrap(body, "routine").replace("def 0 {", "def 0 for actor ACTOR_NPC {")})
        W(f"{nm}@routine_for_object_id", {M: extra + "def 0 {\n    first();\n    end;\n}\n" + _wrap(body, "routine").replace("def 0 {", "def 1 for object (3) {")})
        W(f"{nm}@coroutine", {M: extra + _wrap(body, "routine").replace("def 0 {", "coro CORO_BAD {")})
        W(f"{nm}@macro_of_main", {M: extra + _wrap(body, "macro") + "def 0 {\n    ~bad();\n    end;\n}\n"})
        W(f"{nm}@uncalled_macro_of_main", {M: extra + _wrap(body, "macro") + VALID_MAIN})
        W(f"{nm}@macro_file_depth_1", {M: 'import "./d1.exps";\ndef 0 {\n    ~bad();\n    end;\n}\n',
                                       "/proj/SCRIPT/d1.exps": extra + _wrap(body, "macro")},
          repair={"write": {"/proj/SCRIPT/d1.exps": _wrap("repaired(1);", "macro")}})
        W(f"{nm}@uncalled_macro_file_depth_2", {M: 'import "./d1.exps";\n' + VALID_MAIN,
                                                "/proj/SCRIPT/d1.exps": 'import "./deeper/d2.exps";\nmacro unused_d1() {\n    u();\n}\n',
                                                "/proj/SCRIPT/deeper/d2.exps": extra + _wrap(body, "macro")})
        W(f"{nm}@macro_file_depth_2", {M: 'import "lib/d1.exps";\ndef 0 {\n    ~viad1();\n    end;\n}\n',
                                       "/proj/macros/lib/d1.exps": 'import "../../SCRIPT/d2.exps";\nmacro viad1() {\n    ~bad();\n}\n',
                                       "/proj/SCRIPT/d2.exps": extra + _wrap(body, "macro")}, lookup=["/proj/macros"],
          repair={"write": {"/proj/SCRIPT/d2.exps": _wrap("repaired(2);", "macro")}})
    # offending statements after a closed, valid construct - in the same routine and in a later routine
    for nm, body in INVALID_BODIES.items():
        if nm == "syntax_error":
            continue
        extra = ((DUP_PARAMS if "repeated_parameter_name" in nm else TWO_ARGS) if "macro_argument" in nm else (JUMPER_MACRO if nm == "jump_to_label_of_a_routine_from_macro_scope" else LABEL_MACROS if "_to_label_of_" in nm else "")) + PREFIX_MACROS
        for pn, prefix in PREFIXES.items():
            if pn == "nothing":
                continue
            W(f"{nm}@after_{pn}", {M: extra + f"def 0 {{\n    {prefix}\n    {body}\n    end;\n}}\n"})
            W(f"{nm}@routine_after_{pn}", {M: extra + f"def 0 {{\n    {prefix}\n    end;\n}}\ndef 1 {{\n    {body}\n    end;\n}}\n"})
            W(f"{nm}@macro_after_{pn}", {M: extra + f"macro bad() {{\n    {prefix}\n    {body}\n}}\ndef 0 {{\n    ~bad();\n    end;\n}}\n"})
    # the valid prefixes themselves must stay accepted
    for pn, prefix in PREFIXES.items():
        W(f"valid_prefix_{pn}", {M: PREFIX_MACROS + f"def 0 {{\n    {prefix}\n    ok();\n    end;\n}}\n"}, expect="accept")
    # degenerate programs named by the property ("a routine holding only a label", "out-of-order routine ids"): whatever the
    # answer is, it must be success or one of the three documented exception types - in the compiled file and in a macro
    DEGENERATE = {
        "routine_holding_only_a_label": "def 0 {\n    @l;\n}\n",
        "second_routine_holding_only_labels": "def 0 {\n    a();\n    end;\n}\ndef 1 {\n    @a;\n    @b;\n}\n",
        "jump_to_a_trailing_label": "def 0 {\n    jump @l;\n    @l;\n}\n",
        "only_meta_attribute_lines": "//?: foo: bar\n//?: x: y",
        "empty_source": "",
        "only_a_comment": "// nothing\n",
        "routine_ids_out_of_order": "def 1 {\n    a();\n    end;\n}\ndef 0 {\n    b();\n    end;\n}\n",
        "routine_id_gap": "def 0 {\n    a();\n    end;\n}\ndef 2 {\n    b();\n    end;\n}\n",
        "routine_id_twice": "def 0 {\n    a();\n    end;\n}\ndef 0 {\n    b();\n    end;\n}\n",
        "negative_routine_id": "def -1 {\n    a();\n    end;\n}\n",
        "negative_routine_id_for_actor": "def -2 for actor ACTOR_X {\n    a();\n    end;\n}\n",
        "huge_routine_id_gap": "def 0 {\n    a();\n    end;\n}\ndef 300 {\n    b();\n    end;\n}\n",
        "ssbscript_negative_routine_id": "//?: is-ssb-script: true\ndef -1 {\n    a();\n}\n",
        "ssbscript_routine_id_twice": "//?: is-ssb-script: true\ndef 0 {\n    a();\n}\ndef 0 {\n    b();\n}\n",
        "astronomic_routine_id": "def 999999999999999999999999999999 {\n    a();\n    end;\n}\n",
        "routine_id_65536": "def 65536 {\n    a();\n    end;\n}\n",
        "ssbscript_astronomic_routine_id": "//?: is-ssb-script: true\ndef 99999999999999999999 {\n    a();\n}\n",
        "blocks_nested_1200_deep": "def 0 {\n" + "forever {\n" * 1200 + "a();\n" + "}\n" * 1200 + "end;\n}\n",
        "ifs_nested_700_deep": "def 0 {\n" + "if (debug) {\n" * 700 + "a();\n" + "}\n" * 700 + "end;\n}\n",
        "decimal_routine_target": "def 0 for actor 1.5 {\n    a();\n    end;\n}\n",
        "alias_as_first_routine": "def 0 {\n    alias previous;\n}\n",
        "macro_holding_only_a_label": "macro lbl() {\n    @l;\n}\ndef 0 {\n    ~lbl();\n    end;\n}\n",
        "macro_ending_in_a_label": "macro lbl() {\n    x();\n    jump @e;\n    y();\n    @e;\n}\ndef 0 {\n    ~lbl();\n    ~lbl();\n    end;\n}\n",
    }
    for nm, src in DEGENERATE.items():
        W(f"degenerate:{nm}", {M: src}, expect="answer")
        if src.startswith("def") and "//?" not in src:
            W(f"degenerate:{nm}@imported_sibling_is_fine", {M: 'import "./lib.exps";\n' + src, "/proj/SCRIPT/lib.exps": leaf}, expect="answer")
    # every kind of condition header with every operator, supported or not (rarely used headers have their own operator
    # handling): whatever the answer is, it is success or one of the three documented exception types
    HEADERS = {"variable": ("$V", "1"), "variable_vs_value": ("$V", "value($W)"), "scn": ("scn($S)", "[1, 2]"), "scn_index": ("scn($S)[0]", "1"),
               "random": ("random(3)", "1"), "dungeon_mode": ("dungeon_mode(2)", "DMODE_OPEN"), "sector": ("sector()", "1"),
               "menu": ("menu('x')", "1"), "operation": ("ProcessSpecial(1, 2, 3)", "1"), "bit": ("$V[3]", "1"), "performance": ("$PERFORMANCE_PROGRESS_LIST[3]", "1")}
    OPERATORS = ["==", "!=", "<", "<=", ">", ">=", "&", "^", "&<<", "TRUE", "FALSE"]
    for hn, (lhs, rhs) in HEADERS.items():
        for on in OPERATORS:
            cond = f"{lhs} {on} {rhs}"
            W(f"header:{hn}:{on}@if", {M: f"def 0 {{\n    if ({cond}) {{\n        a();\n    }}\n    end;\n}}\n"}, expect="answer")
            W(f"header:{hn}:{on}@negated_elseif_in_macro", {M: f"macro hm() {{\n    if (debug) {{\n        a();\n    }} elseif not ({cond}) {{\n        b();\n    }}\n}}\ndef 0 {{\n    ~hm();\n    end;\n}}\n"}, expect="answer")
            W(f"header:{hn}:{on}@while_and_switch", {M: f"def 0 {{\n    while ({cond}) {{\n        a();\n    }}\n    switch ({lhs}) {{\n        case {on} {rhs}:\n            b();\n            break;\n    }}\n    end;\n}}\n"}, expect="answer")
    # programs marked as SsbScript take another path through compile() (dispatch on the meta attribute)
    MK = "//?: is-ssb-script: true\n"
    W("ssbscript_syntax_error", {M: MK + "def 0 {\n    a(;\n}\n"})
    W("ssbscript_syntax_error_in_routine_header", {M: MK + "def 0 for_actor() {\n    a();\n}\n"})
    W("ssbscript_syntax_error_in_argument_list", {M: MK + 'def 0 for actor(3) {\n    a(1, "x", @l);\n    @l;\n    b(Position<"m", 1.5, 2>, {def="a"}, 1.5, $v C);\n}\n'})
    W("ssbscript_syntax_error_in_imported_file", {M: 'import "./d1.exps";\n' + VALID_MAIN, "/proj/SCRIPT/d1.exps": MK + "def 0 for_actor() {\n    a();\n}\n"})
    W("ssbscript_jump_to_undefined_label", {M: MK + "def 0 {\n    a();\n    Jump(@nowhere);\n}\n"})
    W("ssbscript_inline_context", {M: MK + "def 0 {\n    a<actor 1>();\n    End();\n}\n"})
    W("ssbscript_valid", {M: MK + "def 0 {\n    @l;\n    a(1, 'x');\n    Jump(@l);\n}\n"}, expect="accept")
    # "routines in an imported file" whatever language the imported file is written in
    W("ssbscript_marker_in_imported_file", {M: 'import "./d1.exps";\n' + VALID_MAIN, "/proj/SCRIPT/d1.exps": MK + "def 0 {\n    a();\n    End();\n}\n"})
    W("ssbscript_marker_in_imported_file_depth_2", {M: 'import "./d1.exps";\n' + VALID_MAIN, "/proj/SCRIPT/d1.exps": 'import "./d2.exps";\n' + leaf,
                                                    "/proj/SCRIPT/d2.exps": MK + "coro C {\n    a();\n    End();\n}\n"})
    W("ssbscript_marker_in_empty_imported_file", {M: 'import "./d1.exps";\n' + VALID_MAIN, "/proj/SCRIPT/d1.exps": MK}, expect="answer")
    # an offending body in a routine whose id is used again (the second definition must not hide the first)
    for nm, body in INVALID_BODIES.items():
        if nm in ("syntax_error",):
            continue
        extra = (DUP_PARAMS if "repeated_parameter_name" in nm else TWO_ARGS) if "macro_argument" in nm else (JUMPER_MACRO if nm == "jump_to_label_of_a_routine_from_macro_scope" else LABEL_MACROS if "_to_label_of_" in nm else "")
        W(f"{nm}@routine_whose_id_is_defined_again", {M: extra + _wrap(body, "routine") + "def 0 {\n    second();\n    end;\n}\n"})
    W("empty_import_path", {M: 'import "";\n' + VALID_MAIN})
    W("empty_import_path_with_lookup_paths", {M: "import '';\n" + VALID_MAIN}, lookup=["/proj/macros"], expect="reject-or-oserror")
    W("empty_import_path_after_a_valid_import", {M: 'import "./lib.exps";\nimport "";\n' + use, "/proj/SCRIPT/lib.exps": leaf})
    # recursive macros whose names also exist in an imported file (the import must not hide the cycle)
    lib_helper = "macro helper() {\n    lib_op();\n}\nmacro pong() {\n    lib_pong();\n}\n"
    W("macro_self_recursion_name_also_imported", {M: 'import "./lib.exps";\nmacro helper() {\n    main_op();\n    ~helper();\n}\ndef 0 {\n    ~helper();\n    end;\n}\n',
                                                  "/proj/SCRIPT/lib.exps": lib_helper})
    W("macro_mutual_recursion_name_also_imported", {M: 'import "./lib.exps";\nmacro ping() {\n    ~pong();\n}\nmacro pong() {\n    ~ping();\n}\ndef 0 {\n    ~ping();\n    end;\n}\n',
                                                    "/proj/SCRIPT/lib.exps": lib_helper})
    W("macro_recursion_through_imported_name_depth_2", {M: 'import "./d1.exps";\nmacro helper() {\n    ~helper();\n}\n' + VALID_MAIN,
                                                        "/proj/SCRIPT/d1.exps": 'import "./lib.exps";\nmacro d1m() {\n    ~helper();\n}\n', "/proj/SCRIPT/lib.exps": lib_helper})
    # recursive macros across files (the cycle is only visible after imports are merged)
    W("macro_self_recursion@main", {M: "macro r() {\n    ~r();\n}\n" + VALID_MAIN})
    W("macro_mutual_recursion@main", {M: "macro ra() {\n    ~rb();\n}\nmacro rb() {\n    ~ra();\n}\n" + VALID_MAIN})
    W("macro_mutual_recursion@macro_file", {M: 'import "./d1.exps";\n' + VALID_MAIN,
                                            "/proj/SCRIPT/d1.exps": "macro ra() {\n    ~rb();\n}\nmacro rb() {\n    ~ra();\n}\n"})
    W("macro_calls_importer_macro", {M: 'import "./d1.exps";\nmacro top() {\n    ~low();\n}\n' + VALID_MAIN,
                                     "/proj/SCRIPT/d1.exps": "macro low() {\n    ~top();\n}\n"})
    # accepted shapes that must be answered wherever they sit
    pm = "macro inner_pm() {\n    a(Position<'P', 1, 2.5>);\n}\nmacro outer_pm() {\n    ~inner_pm();\n    b();\n}\n"
    W("posmark_macro_nested@main", {M: pm + "def 0 {\n    ~outer_pm();\n    end;\n}\n"}, expect="answer")
    W("posmark_macro_nested@macro_file", {M: 'import "./d1.exps";\ndef 0 {\n    ~outer_pm();\n    end;\n}\n', "/proj/SCRIPT/d1.exps": pm}, expect="answer")
    W("posmark_macro_nested@macro_file_depth_2", {M: 'import "./d1.exps";\ndef 0 {\n    ~via();\n    end;\n}\n',
                                                  "/proj/SCRIPT/d1.exps": 'import "./d2.exps";\nmacro via() {\n    ~outer_pm();\n}\n',
                                                  "/proj/SCRIPT/d2.exps": pm}, expect="answer")
    for nm in ("plain", "nested_blocks"):
        body = VALID_BODIES[nm]
        W(f"{nm}@macro_file_depth_2", {M: 'import "./d1.exps";\ndef 0 {\n    ~via();\n    end;\n}\n',
                                       "/proj/SCRIPT/d1.exps": 'import "./d2.exps";\nmacro via() {\n    ~bad();\n}\n',
                                       "/proj/SCRIPT/d2.exps": _wrap(body, "macro")}, expect="answer")
    W("diamond_import_is_not_a_cycle", {M: 'import "./a.exps";\nimport "./b.exps";\ndef 0 {\n    ~ma();\n    ~mb();\n    end;\n}\n',
                                        "/proj/SCRIPT/a.exps": 'import "./c.exps";\nmacro ma() {\n    ~mc();\n}\n',
                                        "/proj/SCRIPT/b.exps": 'import "./c.exps";\nmacro mb() {\n    ~mc();\n}\n',
                                        "/proj/SCRIPT/c.exps": "macro mc() {\n    c_op();\n}\n"}, expect="accept")
    return out


def _compile_with_faults(vfs_dump: dict, main: str, lookup: list, faults: list) -> dict:
    sut.quiet_logging()
    vfs = Vfs.load(vfs_dump)
    vfs.faults = [dict(f) for f in faults]
    vfs.install()
    with vfs.open(main, "r", encoding="utf-8") as f:
        src = f.read()
    for f in vfs.faults:
        f.pop("seen", None)
    c = sut.new_compiler(lookup)
    _arm_budget()
    try:
        try:
            c.compile(src, main)
            out = {"ok": True}
        except BudgetExceeded:
            out = {"raised": "NO-ANSWER"}
        except BaseException as e:
            if isinstance(e, (KeyboardInterrupt, SystemExit)):
                raise
            out = sut.raised(e)
    finally:
        _disarm_budget()
    out["fired"] = [f for f in vfs.faults if f.get("fired")]
    return out


def c10_io_run(item: dict) -> dict:
    """Transient I/O errors while importing (EIO / EACCES on open, a file that vanishes between exists() and
    open()): the property does not speak about them, so the outcome is RECORDED, not judged."""
    import errno

    w = item["world"]
    res = {"name": w["name"], "violations": [], "configs": 0, "outcome": None, "io": {}}
    files = sorted(p for p, n in w["vfs"]["nodes"].items() if "f" in n and p != w["main"])
    for p in files:
        for kind, fault in (("open-EIO", {"call": "open", "path": p, "nth": 1, "errno": errno.EIO}),
                            ("open-EACCES", {"call": "open", "path": p, "nth": 1, "errno": errno.EACCES}),
                            ("vanishes-after-exists", {"call": "open", "path": p, "nth": 1, "errno": errno.ENOENT})):
            o = forkrun(_compile_with_faults, w["vfs"], w["main"], w["lookup"], [fault], timeout=120)
            res["configs"] += 1
            if o.get("fired"):
                k = f"{kind}->{'ok' if 'ok' in o else o['raised']}"
                res["io"][k] = res["io"].get(k, 0) + 1
    res["outcome"] = "io-recorded"
    return res


def c10_run(item: dict) -> dict:
    """One catalogue world, compiled (i) on a fresh compiler and (ii) on a reused compiler between two valid
    programs; the valid program afterwards must equal its pristine digest."""
    w = item["world"]
    res = {"name": w["name"], "violations": [], "configs": 0, "outcome": None, "vfs_calls": 0}

    def viol(clause, kind, extra=None):
        res["violations"].append({"sig": {"clause": clause, "kind": kind, "world": w["name"].split("@")[0]},
                                  "payload": {"world": w, **(extra or {})}})

    def judge(o, tag):
        if "ok" in o:
            if w["expect"] in ("reject", "reject-or-oserror"):
                viol("meaningless-program-is-rejected", "accepted", {"config": tag, "ops": sum(len(r["ops"]) for r in o["ok"]["routines"])})
            return
        if o["raised"] in DOCUMENTED:
            if w["expect"] == "accept":
                viol("valid-layout-is-accepted", f"raised:{o['raised']}", {"config": tag, "observed": {k: o[k] for k in ('raised', 'msg', 'where')}})
            return
        if w["expect"] == "reject-or-oserror" and o["raised"] in ("IsADirectoryError", "OSError", "PermissionError"):
            return
        viol("only-documented-exception-types", f"raised:{o['raised']}", {"config": tag, "observed": {k: o[k] for k in ('raised', 'msg', 'where')}})

    try:
        fresh = compile_once(w["vfs"], w["main"], w["lookup"])
    except HarnessError as e:
        # the simulated process died or never finished: for THIS property that is an answer that never came
        fresh = {"raised": "NO-ANSWER", "msg": str(e)[:200], "where": "process died or exceeded its wall time"}
    res["configs"] += 1
    res["outcome"] = "ok" if "ok" in fresh else fresh["raised"]
    res["vfs_calls"] += sum(fresh.get("vfs_counts", {}).values())
    judge(fresh, "fresh-compiler")
    # reused compiler: valid, offending, valid
    v = Vfs.load(w["vfs"])
    v.write("/proj/SCRIPT/valid0.exps", VALID_MAIN)
    v.write("/proj/SCRIPT/valid1.exps", VALID_OTHER)
    steps = [{"op": "compile", "main": "/proj/SCRIPT/valid0.exps", "lookup": w["lookup"], "slot": 0},
             {"op": "compile", "main": w["main"], "lookup": w["lookup"], "slot": 0},
             {"op": "compile", "main": "/proj/SCRIPT/valid1.exps", "lookup": w["lookup"], "slot": 0}]
    if fresh.get("raised") == "NO-ANSWER":
        return res
    outs = compile_steps(v.dump(), steps)
    pristine = compile_once(v.dump(), "/proj/SCRIPT/valid1.exps", w["lookup"])
    res["configs"] += 4
    judge(outs[1], "reused-compiler")
    if ("ok" in outs[1]) != ("ok" in fresh) or ("raised" in fresh and outs[1].get("raised") != fresh["raised"]):
        viol("same-verdict-on-reused-compiler", f"{res['outcome']}-vs-{'ok' if 'ok' in outs[1] else outs[1]['raised']}")
    if "raised" in outs[1] and outs[1].get("leaks"):
        viol("never-yields-output", "result-attributes-readable-after-rejection:" + ",".join(outs[1]["leaks"]))
    if "ok" not in pristine or "ok" not in outs[2] or model.canon(pristine["ok"]) != model.canon(outs[2]["ok"]):
        viol("next-valid-compile-equals-pristine", "differs")
    # the offending file is repaired and the same script compiled again on the same compiler object: the earlier
    # rejection must have left nothing behind (names on an import chain, half-registered files, cached failures)
    if w.get("repair"):
        rp = w["repair"]
        steps = [{"op": "compile", "main": w["main"], "lookup": w["lookup"], "slot": 0},
                 {"op": "edit", "remove": rp.get("remove", []), "write": rp.get("write", {})},
                 {"op": "compile", "main": w["main"], "lookup": w["lookup"], "slot": 0}]
        outs2 = compile_steps(w["vfs"], steps)
        v2 = Vfs.load(w["vfs"])
        for p_ in rp.get("remove", []):
            v2.remove(p_)
        for p_, t_ in rp.get("write", {}).items():
            v2.write(p_, t_)
        pristine2 = compile_once(v2.dump(), w["main"], w["lookup"])
        res["configs"] += 3
        res["repaired"] = "ok" if "ok" in pristine2 else pristine2["raised"]
        a, b = outs2[1], pristine2
        if ("ok" in a) != ("ok" in b) or ("ok" in a and model.canon(a["ok"]) != model.canon(b["ok"])) or ("raised" in a and a["raised"] != b["raised"]):
            viol("compile-after-repair-equals-pristine", f"{'ok' if 'ok' in a else a['raised']}-vs-{'ok' if 'ok' in b else b['raised']}")
    return res


# ---- drivers ---------------------------------------------------------------------------------------

TIERS = {
    "C05": {"quick": {"runs": 1200, "wall_cap": 75.0}, "thorough": {"runs": 12000, "wall_cap": 1500.0}},
    "C08": {"quick": {"runs": 2400, "wall_cap": 75.0}, "thorough": {"runs": 25000, "wall_cap": 1500.0}},
    "C10": {"quick": {"runs": 1, "wall_cap": 75.0}, "thorough": {"runs": 3, "wall_cap": 1500.0}},
}


def _run(item):
    if item.get("real"):
        return real_fs_validation(item)
    if item.get("io"):
        return c10_io_run(item)
    return {"C05": c05_run, "C08": c08_run, "C10": c10_run}[item["prop"]](item)


def check_prop(prop: str, rep, tier: str, master: int, only_idx=None) -> None:
    import time

    cfg = TIERS[prop][tier]
    t0 = time.time()
    if prop == "C10":
        worlds = c10_worlds(seeds.stream(master, "c10"))
        items = [{"prop": prop, "idx": i, "world": w, "tier": tier} for i, w in enumerate(worlds)]
        items += [{"prop": prop, "idx": 10_000 + i, "world": w, "tier": tier, "io": True} for i, w in enumerate(worlds) if w["expect"] in ("accept", "answer")]
    else:
        items = [{"prop": prop, "idx": i, "run_seed": seeds.run_seed(master, ENGINE + prop, i), "tier": tier} for i in range(cfg["runs"])]
        for i, sh in enumerate(macrolib.SHAPES):  # every named shape at least once
            if i < len(items):
                items[i]["shape"] = sh
    if prop in ("C05", "C08"):
        n_real = 24 if tier == "quick" else 600
        items += [{"prop": prop, "idx": 1_000_000 + i, "run_seed": seeds.run_seed(master, ENGINE + prop + "real", i), "tier": tier, "real": True}
                  for i in range(n_real)]
    if only_idx is not None:
        items = [it for it in items if it["idx"] in only_idx]
    results = pmap(_run, items, wall_cap=cfg["wall_cap"])
    validated = 0
    configs = 0
    kinds: dict = {}
    distinct = set()
    samples = []
    skipped = 0
    extra: dict = {"vfs_calls": 0}
    viols = []
    for it, (st, r) in zip(items, results):
        if st == "skipped":
            skipped += 1
            continue
        if st != "ok":
            rep.harness_error(f"{prop} item {it['idx']}: {r}")
            continue
        if it.get("real"):
            validated += r["validated"]
            for mm in r["mismatch"]:
                rep.harness_error(f"VFS stub disagrees with the real file system: {mm}")
            continue
        configs += r["configs"]
        extra["vfs_calls"] += r.get("vfs_calls", 0)
        for k, v in r.get("kinds", {}).items():
            kinds[k] = kinds.get(k, 0) + v
        if prop == "C10" and it.get("io"):
            d = extra.setdefault("io_faults_recorded_not_judged", {})
            for a, b in r["io"].items():
                d[a] = d.get(a, 0) + b
        elif prop == "C10":
            distinct.add((r["name"], r["outcome"]))
            extra.setdefault("outcomes", {})
            extra["outcomes"][r["outcome"]] = extra["outcomes"].get(r["outcome"], 0) + 1
            if len(samples) < 6 and it["idx"] % 17 == 0:
                samples.append({"world": r["name"], "outcome": r["outcome"], "files": sorted(k for k, n in it["world"]["vfs"]["nodes"].items() if "f" in n)})
        else:
            distinct.add((r["shape"], r.get("n_macros"), tuple(sorted(r.get("kinds", {}).items())), r.get("ref_ops"), r.get("macro_entries")))
            for k in ("import_styles", "edits"):
                if k in r:
                    d = extra.setdefault(k, {})
                    for a, b in r[k].items():
                        d[a] = d.get(a, 0) + b
            for k in ("edit_histories", "macro_entries", "files_contributing"):
                if k in r:
                    extra[k] = extra.get(k, 0) + r[k]
            if len(samples) < 4:
                samples.append({k: r[k] for k in r if k not in ("violations",)})
        for v in r["violations"]:
            v["item"] = {k: it[k] for k in it if k != "world"}
            viols.append(v)
    seen = set()
    for v in viols:
        key = json.dumps(v["sig"], sort_keys=True)
        if key in seen:
            rep.violation(v["sig"], {}, "")
            continue
        seen.add(key)
        what = f"{v['sig']}"
        rep.violation(v["sig"], {"engine": ENGINE, "prop": prop, "item": v["item"], **v["payload"]}, what)
    wall = time.time() - t0
    rules = {
        "C05": "one evaluation = one compile() in its own forked process with an in-memory file system installed. Per library "
               "(generated acyclic macro call graph with uniquely tagged ops): the callee-first single-file reference, "
               "definition-order permutations, generated multi-file worlds (relative / absolute / lookup-path / symlink-alias "
               "imports), two lookup-order worlds, and one history of two different worlds on a reused compiler. "
               "distinct_nontrivial = distinct (graph shape, #macros, configuration kinds, reference op count).",
        "C08": "one evaluation = one compile() in a forked process with the VFS installed; worlds as for C05, each followed by an "
               "edit of one macro file and a recompile (same or fresh compiler). distinct_nontrivial = distinct (shape, kinds, "
               "number of macro source-map entries judged).",
        "C10": "one evaluation = one compile() in a forked process with the VFS installed, under a CPU budget; the catalogue of "
               "import-graph failures and of offending statements at every placement (main routine, macro of main, uncalled "
               "macro, macro file at import depth 1 and 2), each on a fresh compiler and on a compiler reused between two valid "
               "programs. distinct_nontrivial = distinct (catalogue world, outcome).",
    }
    rep.coverage = {
        "evaluations": configs,
        "distinct_nontrivial": len(distinct),
        "rule": rules[prop],
        "samples": samples or [{"note": "nothing ran"}],
        "configuration_kinds": kinds,
        "items_not_run_wall_cap": skipped,
        "traces_validated_against_impl": validated,
        "runs_per_hour": int(configs / max(wall, 1e-6) * 3600),
        "fault_kinds": {"file_absent": "by construction of catalogue worlds", "dangling_symlink": "by construction"} if prop == "C10" else {},
        "simulated_time": "no clock; logical time = VFS calls served: %d" % extra["vfs_calls"],
        "real_components": ["explorerscript compiler (all of it)", "antlr4 runtime", "igraph"],
        "stub_components": ["file system (simkit.vfs behind os.path.exists/realpath, os.getcwd, explorerscript.util.open)"],
        **{k: v for k, v in extra.items()},
    }
    rep.assumptions = [
        "the VFS stub has kernel path semantics (physical resolution of symlinks and '..')",
        "lookup paths are absolute (the property does not define what a relative lookup path is relative to)",
        "two files reached in one compile never define the same macro name (unspecified by the property)",
    ]


def replay_prop(prop: str, payload: dict) -> dict:
    item = dict(payload.get("item", {}))
    item["prop"] = prop
    if prop == "C10":
        item["world"] = payload["world"]
    r = _run(item)
    want = payload.get("signature")
    for v in r["violations"]:
        if v["sig"] == want:
            return {"sig": v["sig"]}
    return {"sig": r["violations"][0]["sig"] if r["violations"] else None}
