"""threadworld - C12: concurrent compilation and decompilation give the sequential results (DESIGN.md 5.2).

2-4 real caller threads in one forked process, each with its own queue of jobs on its own input
objects; only the choice of who runs is simulated (simkit.sched). Each job's digest must equal the
digest of the same job run alone in a pristine process, and nothing may raise that does not raise
there; all jobs must finish (no deadlock / livelock within the step cap).
"""
from __future__ import annotations

import copy
import gc
import json
import random

from simkit import model, seeds, sut, sched as S
from simkit.pool import forkrun, HarnessError, pmap
from simkit.vfs import Vfs
from engines import histworld as hw

ENGINE = "threadworld"
POOL_SIZES = ("small", "small", "small", "medium")


def job_fn(pool: dict, vfs: Vfs, job: dict, alone: bool = False):
    """Returns a closure that runs one job on its own fresh input objects and returns its digest. Interpreter-wide
    settings are sampled after the call only when it runs alone (the reference): while other calls are in flight a
    setting that one of them changes for the duration of its own work (and restores) is legitimately visible; what the
    calls leave behind is compared once, when all of them have returned (simulate: settings_at_quiescence)."""
    k = job["k"]

    def run():
        d = run_inner()
        if isinstance(d, dict) and alone:
            d["process_settings_after"] = model.process_settings()
        return d

    def run_inner():
        if k == "C":
            t = pool["texts"][job["i"]]
            c = sut.new_compiler(t.get("lookup"))
            src = t["src"]
            if src is None:
                with vfs.open(t["file"], "r", encoding="utf-8") as f:
                    src = f.read()
            try:
                c.compile(src, t["file"])
            except Exception as e:
                return model.failure_digest(e)
            return model.compile_digest(c)
        if k in ("D", "S"):
            doc = pool["docs"][job["j"]]
            infos, coros, rops = model.routines_from_json(doc)
            from explorerscript.ssb_converting.ssb_decompiler import ExplorerScriptSsbDecompiler
            from explorerscript.ssb_script.ssb_converting.ssb_decompiler import SsbScriptSsbDecompiler
            from explorerscript.ssb_converting.ssb_data_types import DungeonModeConstants

            d = SsbScriptSsbDecompiler(infos, rops, coros) if k == "S" else ExplorerScriptSsbDecompiler(infos, rops, coros, sut.PPL, DungeonModeConstants(*sut.DMC))
            try:
                text, sm = d.convert()
            except Exception as e:
                return model.failure_digest(e)
            return model.decompile_digest(text, sm)
        if k == "SC":
            from explorerscript.ssb_script.ssb_converting.ssb_compiler import SsbScriptSsbCompiler

            c = SsbScriptSsbCompiler()
            try:
                c.compile(pool["ssbs"][job["i"]])
            except Exception as e:
                return model.failure_digest(e)
            dd = model.routines_to_json(c.routine_infos, c.named_coroutines, c.routine_ops)
            dd["source_map"] = json.loads(c.source_map.serialize())
            return dd
        raise HarnessError(f"bad job {job}")

    return run


def job_key(job: dict) -> str:
    return f"{job['k']}{job.get('i', job.get('j'))}"


def simulate(pool: dict, plan: list[list[dict]], strategy: dict, sched_seed: int, replay_switches=None, timeout=150.0) -> dict:
    """One simulated process: plan[t] is the job queue of thread t."""
    sut.quiet_logging()
    gc.disable()
    vfs = Vfs.load(pool["vfs"]).install()
    rng = seeds.stream(sched_seed, "sched")
    sc = S.Scheduler(rng, dict(strategy), replay_switches, step_cap=strategy.get("step_cap", 50_000_000))
    locks = S.patch_locks(sc)
    results: dict = {}

    def make_thread(ti, jobs):
        fns = [job_fn(pool, vfs, j, alone=(len(plan) == 1 and len(plan[0]) == 1)) for j in jobs]

        def body():
            out = []
            for j, f in zip(jobs, fns):
                try:
                    out.append({"job": j, "digest": f()})
                except SystemExit:
                    raise
                except BaseException as e:
                    out.append({"job": j, "escaped": sut.raised(e)})
            results[ti] = out
            return out

        return body

    for ti, jobs in enumerate(plan):
        sc.spawn(make_thread(ti, jobs))
    line, entry, instr = S.code_groups()
    sc.install(line, entry, instr)
    try:
        failure = sc.run(timeout=timeout)
    finally:
        try:
            sc.uninstall()
        except Exception:
            pass
    fp = seeds.sha([(a, b, c) for a, b, c, _ in sc.switches])
    site_fp = seeds.sha(sc.site_trace[:5000])
    # how often were two threads inside shared-state functions "at once" (interleaved at bytecode level)?
    inter = 0
    last = None
    for t, s in sc.site_trace:
        if last is not None and t != last:
            inter += 1
        last = t
    return {"results": results, "failure": (type(failure).__name__ + ": " + str(failure)) if failure else None,
            "settings_at_quiescence": model.process_settings(), "site_files": sorted(sc.site_files), "site_lines": sorted(sc.site_lines),
            "events": sc.total_events, "switches": len(sc.switches), "switch_list": [list(x) for x in sc.switches][:20000],
            "schedule_fp": fp, "site_fp": site_fp, "shared_site_events": len(sc.site_trace), "shared_site_interleavings": inter,
            "probes": sc.probes, "locks": locks, "first": getattr(sc, "first", None),
            "per_thread_events": [t.events for t in sc.threads],
            "switch_kinds": _count([x[3] for x in sc.switches])}


def _count(xs):
    d = {}
    for x in xs:
        d[x] = d.get(x, 0) + 1
    return d


def reference(pool: dict, job: dict) -> dict:
    """The job alone (one thread, no pre-emption) in a pristine process: its digest and its event count."""
    r = simulate(pool, [[job]], {"kind": "none"}, 0)
    if r["failure"]:
        raise HarnessError(f"reference run failed: {r['failure']}")
    out = r["results"][0][0]
    return {"digest": out.get("digest"), "escaped": out.get("escaped"), "events": r["events"], "touched": r.get("site_files", []), "touched_lines": r.get("site_lines", [])}


def draw_kind(rng: random.Random, counter: int) -> dict:
    """First decision of a run: the strategy kind and, for rendezvous runs, the group of shared-state sites the run
    concentrates on (groups are taken in turn so that each gets its share) - the plan is then biased to the kind of
    call that can reach that group."""
    k = rng.choice(["random", "random", "random", "repo", "repo", "site", "site", "pct", "skew", "rendezvous", "rendezvous", "rendezvous", "rendezvous"])
    out = {"kind": k, "focus": None, "mix": None}
    if k == "rendezvous":
        groups = sorted(S.shared_lines()) + sorted({c.co_filename for c in S.code_groups()[2]}) + [None]
        novel = S.novel_groups()
        if novel and rng.random() < 0.6:
            groups = novel  # state that the tree under test shares and the pinned tree did not: the prime suspect
        focus = groups[(counter + rng.randrange(3)) % len(groups)]
        out["focus"] = focus
        out["novel"] = bool(novel) and focus in novel
        if focus is not None:
            f = focus.replace("\\", "/")
            if "/compiler/" in f or "reader" in f or f.endswith("ssb_compiler.py") or f.endswith("macro.py") or "listener" in f or "source_map" in f:
                out["mix"] = ["C"] if rng.random() < 0.8 else ["C", "SC", "D"]
            elif "/decompiler/" in f or f.endswith("ssb_decompiler.py"):
                out["mix"] = ["D", "D", "S"]
    return out


def draw_strategy(rng: random.Random, est_events: int, t0_events: int, pre: dict | None = None) -> dict:
    k = pre["kind"] if pre else rng.choice(["random", "random", "random", "repo", "repo", "site", "site", "pct", "skew", "rendezvous"])
    gcp = sorted(rng.randrange(1, max(2, est_events)) for _ in range(rng.choice([0, 0, 1, 3])))
    pal = rng.choice([0.0, 0.0, 0.1, 0.5, 1.0])
    if k == "random":
        return {"kind": "random", "mean_gap": rng.choice([10, 30, 100, 300, 3000, 30000]), "gc_points": gcp, "max_switches": 5000, "p_after_acquire": pal}
    if k == "rendezvous":
        focus = pre["focus"] if pre else None
        return {"kind": "rendezvous", "focus": focus, "q": rng.choice([0.05, 0.2, 0.5]), "burst_len": rng.choice([8, 16, 32]), "patience": rng.choice([50000, 300000, 2000000]), "burst_point_p": rng.choice([0.0, 0.0005, 0.002, 0.01]), "burst_events": rng.choice([20000, 200000]),
                "gc_points": gcp, "max_switches": 2500, "p_after_acquire": pal}
    if k == "repo":
        return {"kind": "repo", "p_line": rng.choice([0.01, 0.05, 0.2, 0.5]), "p_entry": rng.choice([0.0, 0.0005, 0.005]), "gc_points": gcp, "max_switches": 8000, "p_after_acquire": pal}
    if k == "site":
        return {"kind": "site", "p": rng.choice([0.001, 0.01, 0.05]), "burst_rate": rng.choice([0.0, 0.0005, 0.002]), "burst_len": rng.choice([4, 8, 16]),
                "gc_points": gcp, "max_switches": 5000, "p_after_acquire": pal}
    if k == "pct":
        return {"kind": "pct", "d": rng.choice([1, 2, 3]), "est_events": est_events, "gc_points": gcp, "max_switches": 5000}
    return {"kind": "skew", "release_at": max(1, int(rng.random() * t0_events)), "then_gap": rng.choice([30, 300, 3000]), "gc_points": gcp, "max_switches": 5000}


def gen_plan(pool: dict, rng: random.Random, mix_hint=None, candidates=None) -> list[list[dict]]:
    """candidates: jobs known (from their reference runs) to reach the group of sites this run concentrates on."""
    nthreads = rng.choice([2, 2, 3, 4])
    nt, nd, ns = len(pool["texts"]), len(pool["docs"]), len(pool["ssbs"])
    plan = []
    # swarm: some runs are all-compile, some all-decompile (state shared by one kind of call needs two of a kind at once)
    mix = rng.choice([["C"], ["D", "D", "S"], ["C", "C", "D", "D", "D", "S", "SC"], ["C", "C", "D", "D", "D", "S", "SC"]])
    if mix_hint:
        mix = mix_hint
    for _ in range(nthreads):
        jobs = []
        # a run that concentrates on one group of sites gives every thread several calls of the kind that reaches it
        # (state left by a FINISHED call is often what the next two calls race for)
        for _ in range(rng.choice([2, 3, 3]) if mix_hint else rng.choice([1, 1, 2, 3])):
            k = rng.choice(mix)
            if candidates and rng.random() < 0.8:
                jobs.append(dict(rng.choice(candidates)))
                continue
            if k == "C":
                proj = [i_ for i_, t_ in enumerate(pool["texts"]) if t_["kind"] == "exps-imports"]
                # scripts of the multi-file projects share files, directories and lookup paths: two of them at once is
                # where compiles can get into each other's way
                jobs.append({"k": "C", "i": rng.choice(proj) if proj and rng.random() < 0.4 else rng.randrange(nt)})
            elif k in ("D", "S") and nd:
                jobs.append({"k": k, "j": rng.randrange(nd)})
            elif k == "SC" and ns:
                jobs.append({"k": "SC", "i": rng.randrange(ns)})
            else:
                jobs.append({"k": "C", "i": rng.randrange(nt)})
        plan.append(jobs)
    return plan


def judge(sim: dict, plan, refs: dict, seq_events: int) -> list:
    viols = []
    if sim["failure"]:
        kind = sim["failure"].split(":")[0]
        viols.append({"sig": {"clause": "every-call-returns", "kind": kind}, "detail": sim["failure"]})
        return viols
    for ti, jobs in enumerate(plan):
        outs = sim["results"].get(ti)
        if outs is None or len(outs) != len(jobs):
            viols.append({"sig": {"clause": "every-call-returns", "kind": "missing-result"}, "detail": f"thread {ti}"})
            continue
        for o in outs:
            ref = refs[job_key(o["job"])]
            if isinstance(ref.get("digest"), dict) and "process_settings_after" in ref["digest"]:
                ref = dict(ref, digest={k_: v_ for k_, v_ in ref["digest"].items() if k_ != "process_settings_after"})
            if "escaped" in o:
                viols.append({"sig": {"clause": "none-raises-because-of-the-others", "kind": o["escaped"]["raised"], "job": o["job"]["k"]},
                              "detail": o["escaped"]})
            elif model.canon(o["digest"]) != model.canon(ref["digest"]):
                viols.append({"sig": {"clause": "each-call-returns-its-sequential-result", "job": o["job"]["k"], "field": hw._which_field(o["digest"], ref["digest"])},
                              "detail": f"thread {ti} job {job_key(o['job'])}"})
    # what the calls leave behind, once all have returned: what one of them leaves behind when it runs alone
    left = [refs[job_key(j)]["digest"].get("process_settings_after") for jobs in plan for j in jobs
            if isinstance(refs[job_key(j)].get("digest"), dict)]
    final = sim.get("settings_at_quiescence")
    if left and final is not None and all(model.canon({"s": final}) != model.canon({"s": x}) for x in left):
        viols.append({"sig": {"clause": "calls-leave-the-process-as-sequential-calls-do", "field": "process_settings"},
                      "detail": f"after all calls returned: {final}; after any one of them alone: {left[0]}"})
    return viols


def run_item(item: dict) -> dict:
    # tables derived from the loaded code are built once per shard worker; the simulated processes (forks) inherit them
    S.code_groups()
    S.shared_lines()
    S.novel_groups()
    pool_seed, tier = item["pool_seed"], item["tier"]
    pool = forkrun(hw.make_pool, pool_seed, POOL_SIZES, timeout=300)
    res = {"pool_seed": pool_seed, "schedules": 0, "events": 0, "switches": 0, "violations": [], "strategies": {}, "switch_kinds": {},
           "site_fps": [], "schedule_fps": [], "shared_site_events": 0, "shared_site_interleavings": 0, "probes": {}, "threads": {}, "processes": 0}
    refs: dict = {}
    for s in range(item["schedules"]):
        rs = seeds.H(pool_seed, "schedule", s)
        prng = seeds.stream(rs, "plan")
        pre = draw_kind(seeds.stream(rs, "kind"), item["idx"] * item["schedules"] + s)
        candidates = None
        if pre.get("novel"):
            # state that the tree under test newly shares: find out (once per pool) which jobs reach it at all, and build
            # the plan from those - two calls that never touch it cannot race for it
            if "_all" not in refs:
                for j_ in ([{"k": "D", "j": x} for x in range(len(pool["docs"]))] + [{"k": "S", "j": x} for x in range(len(pool["docs"]))]
                           + [{"k": "C", "i": x} for x in range(len(pool["texts"]))]):
                    if job_key(j_) not in refs:
                        try:
                            refs[job_key(j_)] = forkrun(reference, pool, j_, timeout=300)
                            res["processes"] += 1
                        except HarnessError:
                            pass
                refs["_all"] = True
            fr = pre["focus"]
            # within the focus file, concentrate on ONE shared-looking line, rare ones first (a line every call passes is
            # covered anyway; a line only few inputs reach - a table extended on demand, a branch for deep nesting - needs
            # two of exactly those inputs at once)
            by_line: dict = {}
            for k_, v_ in refs.items():
                if k_ == "_all" or k_.startswith("SC") or k_[0] not in "DSC":
                    continue
                for f_, ln_ in (v_.get("touched_lines") or []):
                    if f_ == fr:
                        by_line.setdefault(ln_, []).append(k_)
            if by_line:
                order = sorted(by_line, key=lambda ln_: (len(by_line[ln_]), ln_))
                pick = order[(item["idx"] * item["schedules"] + s) % min(len(order), 6)]
                candidates = [{"k": k_[0], ("i" if k_[0] == "C" else "j"): int(k_[1:])} for k_ in by_line[pick]]
            res["probes"]["plans_built_from_jobs_reaching_the_focus"] = res["probes"].get("plans_built_from_jobs_reaching_the_focus", 0) + (1 if candidates else 0)
        plan = gen_plan(pool, prng, pre["mix"], candidates)
        for jobs in plan:
            for j in jobs:
                if job_key(j) not in refs:
                    refs[job_key(j)] = forkrun(reference, pool, j, timeout=300)
                    res["processes"] += 1
        seq = sum(refs[job_key(j)]["events"] for jobs in plan for j in jobs)
        t0 = sum(refs[job_key(j)]["events"] for j in plan[0])
        strategy = draw_strategy(seeds.stream(rs, "strategy"), seq, t0, pre)
        strategy["step_cap"] = seq * 50
        sim = forkrun(simulate, pool, plan, strategy, rs, timeout=300)
        res["processes"] += 1
        res["schedules"] += 1
        res["events"] += sim["events"]
        res["switches"] += sim["switches"]
        res["strategies"][strategy["kind"]] = res["strategies"].get(strategy["kind"], 0) + 1
        res["threads"][str(len(plan))] = res["threads"].get(str(len(plan)), 0) + 1
        for k, v in sim["switch_kinds"].items():
            res["switch_kinds"][k] = res["switch_kinds"].get(k, 0) + v
        for k, v in sim["probes"].items():
            res["probes"][k] = res["probes"].get(k, 0) + v
        res["site_fps"].append(sim["site_fp"])
        res["schedule_fps"].append(sim["schedule_fp"])
        res["shared_site_events"] += sim["shared_site_events"]
        res["shared_site_interleavings"] += sim["shared_site_interleavings"]
        for v in judge(sim, plan, refs, seq):
            v.update({"pool_seed": pool_seed, "run_seed": rs, "plan": plan, "strategy": {k: x for k, x in strategy.items() if not k.startswith("_")},
                      "switch_list": sim["switch_list"], "first": sim.get("first")})
            res["violations"].append(v)
        if s == 0:
            res["sample"] = {"plan": [[job_key(j) for j in jobs] for jobs in plan], "strategy": {k: x for k, x in strategy.items() if k != "gc_points"},
                             "events": sim["events"], "switches": sim["switches"], "sequential_events": seq, "locks_replaced": sim["locks"]}
    return res


# ---- replay / minimisation ---------------------------------------------------------------------------------


def replay_schedule(pool, plan, switch_list, run_seed, first=None):
    """Re-run with the recorded switch list (event index, from, to): explicit decisions instead of PRNG draws."""
    plan2 = plan
    strat = {"kind": "none", "step_cap": 10 ** 9}
    sim = forkrun(_simulate_replay, pool, plan2, strat, run_seed, switch_list, first, timeout=300)
    return sim


def _simulate_replay(pool, plan, strat, run_seed, switch_list, first):
    return simulate(pool, plan, strat, run_seed, replay_switches=[tuple(x) for x in switch_list])


def minimise_switches(pool, plan, refs, switch_list, run_seed, sig, budget=40):
    """ddmin over the context-switch list: removing a switch lets the current thread run on."""
    def fails(sw):
        nonlocal budget
        if budget <= 0:
            return False
        budget -= 1
        try:
            sim = replay_schedule(pool, plan, sw, run_seed)
        except HarnessError:
            return False
        return any(v["sig"] == sig for v in judge(sim, plan, refs, 0))

    cur = [x for x in switch_list if x[3] not in ("exit", "blocked")]
    if not fails(cur):
        return None
    chunk = max(1, len(cur) // 2)
    while chunk >= 1 and budget > 0:
        i = 0
        while i < len(cur) and budget > 0:
            cand = cur[:i] + cur[i + chunk:]
            if fails(cand):
                cur = cand
            else:
                i += chunk
        if chunk == 1:
            break
        chunk = max(1, chunk // 2)
    return cur


def replay(payload: dict) -> dict:
    pool = payload["pool"]
    plan = payload["plan"]
    refs = {}
    for jobs in plan:
        for j in jobs:
            if job_key(j) not in refs:
                refs[job_key(j)] = forkrun(reference, pool, j, timeout=300)
    if payload.get("min_switch_list") is not None:
        sim = replay_schedule(pool, plan, payload["min_switch_list"], payload["run_seed"])
    else:
        sim = forkrun(simulate, pool, plan, payload["strategy"], payload["run_seed"], timeout=300)
    vs = judge(sim, plan, refs, 0)
    for v in vs:
        if v["sig"] == payload["signature"]:
            return {"sig": v["sig"]}
    return {"sig": vs[0]["sig"] if vs else None}


# ---- the check --------------------------------------------------------------------------------------------

TIERS = {"quick": {"pools": 200, "schedules": 5, "wall_cap": 70.0}, "thorough": {"pools": 1200, "schedules": 8, "wall_cap": 1500.0}}


def check(rep, tier: str, master: int, only_idx=None) -> None:
    import time

    cfg = TIERS[tier]
    t0 = time.time()
    items = [{"idx": i, "pool_seed": seeds.run_seed(master, ENGINE, i), "tier": tier, "schedules": cfg["schedules"]} for i in range(cfg["pools"])]
    if only_idx is not None:
        items = [it for it in items if it["idx"] in only_idx]
    results = pmap(run_item, items, wall_cap=cfg["wall_cap"])
    agg = {"schedules": 0, "events": 0, "switches": 0, "processes": 0, "shared_site_events": 0, "shared_site_interleavings": 0, "skipped_wall_cap": 0}
    strategies: dict = {}
    kinds: dict = {}
    probes: dict = {}
    threads: dict = {}
    site_fps = set()
    sched_fps = set()
    samples = []
    viols = []
    for it, (st, r) in zip(items, results):
        if st == "skipped":
            agg["skipped_wall_cap"] += 1
            continue
        if st != "ok":
            rep.harness_error(f"item {it['idx']} pool {it['pool_seed']}: {r}")
            continue
        for k in ("schedules", "events", "switches", "processes", "shared_site_events", "shared_site_interleavings"):
            agg[k] += r[k]
        for src, dst in ((r["strategies"], strategies), (r["switch_kinds"], kinds), (r["probes"], probes), (r["threads"], threads)):
            for k, v in src.items():
                dst[k] = dst.get(k, 0) + v
        site_fps.update(r["site_fps"])
        sched_fps.update(r["schedule_fps"])
        if len(samples) < 3 and "sample" in r:
            samples.append(r["sample"])
        viols += r["violations"]
    seen = set()
    from simkit.report import match_finding

    for v in viols:
        key = json.dumps(v["sig"], sort_keys=True)
        if key in seen or match_finding(rep.findings, v["sig"]) is not None:
            rep.violation(v["sig"], {}, "")
            continue
        seen.add(key)
        pool = forkrun(hw.make_pool, v["pool_seed"], POOL_SIZES, timeout=300)
        payload = {"engine": ENGINE, "pool": pool, "plan": v["plan"], "strategy": v["strategy"], "run_seed": v["run_seed"], "detail": v.get("detail"),
                   "switches_recorded": len(v["switch_list"]), "min_switch_list": None}
        try:
            refs = {}
            for jobs in v["plan"]:
                for j in jobs:
                    if job_key(j) not in refs:
                        refs[job_key(j)] = forkrun(reference, pool, j, timeout=300)
            m = minimise_switches(pool, v["plan"], refs, v["switch_list"], v["run_seed"], v["sig"])
            if m is not None:
                payload["min_switch_list"] = m
        except HarnessError as e:
            rep.harness_error(f"minimisation: {e}")
        again = replay({**payload, "signature": v["sig"]})
        if again["sig"] != v["sig"]:
            payload["min_switch_list"] = None
            again = replay({**payload, "signature": v["sig"]})
        if again["sig"] != v["sig"]:
            rep.harness_error(f"violation did not replay: {v['sig']}")
            continue
        rep.violation(v["sig"], payload, f"{v['sig']} ({v.get('detail')}) plan={[[job_key(j) for j in jobs] for jobs in v['plan']]} "
                                         f"strategy={v['strategy'].get('kind')} switches={len(payload['min_switch_list'] or v['switch_list'])}")
    wall = time.time() - t0
    rep.coverage = {
        "evaluations": agg["schedules"],
        "distinct_nontrivial": len(site_fps),
        "rule": "one evaluation = one seeded schedule of 2-4 real caller threads (1-3 compile / decompile jobs each, own input objects) in one "
                "forked process under the baton scheduler. Pre-emption points: every line of hand-written repo code, every function entry "
                "of the antlr4 runtime and generated parsers, every bytecode of the shared-state functions; SimLock for cache_lock. "
                "distinct_nontrivial = distinct sequences of (thread, shared-state site) pairs, i.e. distinct interleavings of the "
                "accesses that can matter.",
        "samples": samples or [{"note": "nothing ran"}],
        **agg,
        "distinct_schedules": len(sched_fps),
        "strategies": strategies,
        "threads_per_run": threads,
        "switch_kinds": kinds,
        "reach_probes": probes,
        "fault_kinds": {"preemption": agg["switches"], "gc_event": probes.get("gc_events", 0), "lock_contention": probes.get("lock_contended", 0)},
        "runs_per_hour": int(agg["schedules"] / max(wall, 1e-6) * 3600),
        "simulated_time": f"no clock; logical time = {agg['events']} pre-emption points passed, {agg['switches']} context switches",
        "real_components": ["explorerscript (compilers, decompilers)", "antlr4 runtime with its shared DFA / context caches", "igraph", "real threading.Thread objects"],
        "stub_components": ["thread scheduler (who runs next)", "graph_utils.cache_lock (SimLock)", "file system (VFS)", "logging sink"],
    }
    rep.assumptions = [
        "C-level calls (igraph, dict/list operations) are atomic under the GIL, in the simulation as in reality",
        "outside the named shared-state functions a thread switch between two bytecodes of one line is equivalent to one at the line boundary "
        "(frames there work on thread-private objects)",
        "decided for the GIL interpreter present (3.12); free-threaded CPython is not installed",
    ]
