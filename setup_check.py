"""MANIFEST.setup_cmd: nothing is built; verify the interpreter can import what the checks need and that
`explorerscript` resolves into /repo's working tree."""
import os
import sys

sys.path.insert(0, "/repo")
import igraph, antlr4  # noqa
import explorerscript

p = os.path.realpath(explorerscript.__file__)
assert p.startswith("/repo/"), p
assert sys.version_info[:2] >= (3, 12), "sys.monitoring is needed"
os.makedirs("/verif/evidence", exist_ok=True)
os.makedirs("/verif/replays", exist_ok=True)
print("setup ok:", sys.version.split()[0], "igraph", igraph.__version__, "explorerscript at", p)
