#!/venv/bin/python
"""Determinism self-test: every check, a sample of its items, executed several times in separate interpreters
at different worker counts and under another PYTHONHASHSEED; the per-item fingerprints (sha of the complete item
result: digests, counters, switch lists, violations) must be identical.

    /venv/bin/python /verif/selftest/determinism.py [--items N] [--props C06,C11]
Writes /verif/selftest/determinism_last.json. Exit 0 iff no fingerprint differs.
"""
import argparse
import json
import os
import subprocess
import sys
import tempfile
import time

VERIF = os.path.dirname(os.path.dirname(os.path.abspath(__file__)))
PROPS = ["C05", "C06", "C08", "C10", "C11", "C12", "C15"]
CONFIGS = [{"VERIF_WORKERS": "16", "SIMKIT_HASHSEED": "0"}, {"VERIF_WORKERS": "3", "SIMKIT_HASHSEED": "0"},
           {"VERIF_WORKERS": "16", "SIMKIT_HASHSEED": "4242"}]


def run(prop, only, cfg, seed):
    with tempfile.NamedTemporaryFile("r", suffix=".fp", delete=False) as tf:
        path = tf.name
    env = dict(os.environ, SIMKIT_FP_FILE=path, VERIF_SEED=str(seed), **cfg)
    env.pop("SIMKIT_BOOTED", None)
    p = subprocess.run([sys.executable, os.path.join(VERIF, "run_check.py"), prop, "--tier", "quick", "--only", only, "--no-evidence"],
                       env=env, capture_output=True, text=True, timeout=3000)
    fps = {}
    with open(path) as f:
        for line in f:
            d = json.loads(line)
            fps[f"{d['fn']}#{d['i']}"] = (d["status"], d["fp"])
    os.unlink(path)
    return p.returncode, fps


def main():
    ap = argparse.ArgumentParser()
    ap.add_argument("--items", type=int, default=12)
    ap.add_argument("--props", default=",".join(PROPS))
    ap.add_argument("--seed", type=int, default=7)
    a = ap.parse_args()
    out = {"at": time.strftime("%Y-%m-%d %H:%M:%S"), "seed": a.seed, "results": {}}
    bad = 0
    for prop in a.props.split(","):
        only = ",".join(str(i) for i in range(a.items))
        runs = [run(prop, only, cfg, a.seed) for cfg in CONFIGS]
        keys = sorted(set().union(*[set(r[1]) for r in runs]))
        diff = [k for k in keys if len({r[1].get(k) for r in runs}) != 1]
        out["results"][prop] = {"items_fingerprinted": len(keys), "executions": len(runs), "differing": diff, "exit_codes": [r[0] for r in runs]}
        print(prop, "items", len(keys), "differing", len(diff), "exit", [r[0] for r in runs], flush=True)
        bad += len(diff)
    with open(os.path.join(VERIF, "selftest", "determinism_last.json"), "w") as f:
        json.dump(out, f, indent=1)
    return 1 if bad else 0


if __name__ == "__main__":
    sys.exit(main())
