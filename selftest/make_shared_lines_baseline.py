#!/venv/bin/python
"""Writes simkit/shared_lines_baseline.json from the current /repo tree (run after a `fix:` commit that legitimately
changes which lines touch shared state). The baseline only steers how rendezvous runs are distributed."""
import json
import os
import sys

sys.path.insert(0, os.path.dirname(os.path.dirname(os.path.abspath(__file__))))
sys.path.insert(0, "/repo")
from simkit import sched  # noqa: E402

out = sched.shared_line_texts()
with open(os.path.join(os.path.dirname(os.path.dirname(os.path.abspath(__file__))), "simkit", "shared_lines_baseline.json"), "w") as f:
    json.dump(out, f, indent=1, sort_keys=True)
print(sum(len(v) for v in out.values()), "lines in", len(out), "files")
