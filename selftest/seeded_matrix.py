#!/venv/bin/python
"""Run the quick check of the property each seeded change breaks (plus any extra checks recorded in its meta.json)
against a scratch worktree with the change applied; refresh seeded/<id>/meta.json and write
selftest/seeded_matrix_last.json.   usage: seeded_matrix.py [id-substring ...]"""
import json
import os
import subprocess
import sys
import time

VERIF = os.path.dirname(os.path.dirname(os.path.abspath(__file__)))


def main():
    want = sys.argv[1:]
    out = {"at": time.strftime("%Y-%m-%d %H:%M:%S"), "rows": {}}
    last = os.path.join(VERIF, "selftest", "seeded_matrix_last.json")
    if want and os.path.exists(last):
        out["rows"] = json.load(open(last))["rows"]  # a partial run refreshes its rows and keeps the others
    for sid in sorted(os.listdir(os.path.join(VERIF, "seeded"))):
        d = os.path.join(VERIF, "seeded", sid)
        if not os.path.isfile(os.path.join(d, "meta.json")) or (want and not any(w in sid for w in want)):
            continue
        meta = json.load(open(os.path.join(d, "meta.json")))
        props = [meta["breaks_property"]] + [p for p in meta.get("checks", {}) if p != meta["breaks_property"]]
        cmd = [sys.executable, os.path.join(VERIF, "selftest", "try_seeded.py"), sid, os.path.join(d, "patch.diff"), os.path.join(d, "demo.py"),
               ",".join(props), "--save", sid, "--breaks", meta["breaks_property"], "--needs", meta.get("needs_to_manifest", "")]
        subprocess.run(cmd, capture_output=True, text=True, timeout=7200)
        meta = json.load(open(os.path.join(d, "meta.json")))
        row = {p: ("detected" if v["detected"] else f"missed(exit {v['exit']})") for p, v in meta["checks"].items()}
        if meta["confirmed"].get("demo_exit_with_change") != 1:
            row["NOTE"] = "demo no longer fails with the change on this HEAD: not a property-breaking change any more"
        out["rows"][sid] = {"breaks": meta["breaks_property"], "confirmed": meta["confirmed"], "checks": row}
        print(sid.ljust(55), row, flush=True)
    with open(os.path.join(VERIF, "selftest", "seeded_matrix_last.json"), "w") as f:
        json.dump(out, f, indent=1)


if __name__ == "__main__":
    main()
