#!/venv/bin/python
"""False-alarm test: a behaviour-preserving change applied in a scratch worktree; ALL quick checks must exit 0.

    try_benign.py <name> <patch.diff> [--save <id>] [--props C05,C06,...]
"""
import json
import os
import shutil
import subprocess
import sys
import time

VERIF = os.path.dirname(os.path.dirname(os.path.abspath(__file__)))
PY = "/venv/bin/python"
ALL = ["C05", "C06", "C08", "C10", "C11", "C12", "C15"]


def sh(cmd, **kw):
    return subprocess.run(cmd, capture_output=True, text=True, **kw)


def main():
    name, patch = sys.argv[1:3]
    rest = sys.argv[3:]
    save = rest[rest.index("--save") + 1] if "--save" in rest else None
    props = rest[rest.index("--props") + 1].split(",") if "--props" in rest else ALL
    wt = f"/tmp/benigntest_{name}"
    shutil.rmtree(wt, ignore_errors=True)
    sh(["git", "-C", "/repo", "worktree", "prune"])
    sh(["git", "-C", "/repo", "worktree", "add", "-q", wt, "HEAD"])
    out = {"name": name, "checks": {}}
    try:
        a = sh(["git", "-C", wt, "apply", os.path.abspath(patch)])
        out["applies"] = a.returncode == 0
        if a.returncode == 0:
            env = dict(os.environ, PYTHONPATH=wt, PYTHONDONTWRITEBYTECODE="1")
            t = sh([PY, "-m", "pytest", "-q", "-p", "no:cacheprovider", "-x"], cwd=wt, env=env)
            out["tests"] = t.stdout.strip().splitlines()[-1] if t.stdout.strip() else t.stderr[-200:]
            for prop in props:
                t0 = time.time()
                env2 = dict(os.environ, VERIF_REPO=wt)
                env2.pop("SIMKIT_BOOTED", None)
                c = sh([PY, os.path.join(VERIF, "run_check.py"), prop, "--tier", "quick", "--no-evidence"], env=env2, timeout=7200)
                lines = [ln for ln in c.stdout.splitlines() if ln.startswith("VIOLATION") or ln.strip().startswith("what:") or ln.startswith("HARNESS")]
                out["checks"][prop] = {"exit": c.returncode, "wall_s": round(time.time() - t0, 1), "lines": lines[:6]}
        else:
            out["apply_error"] = a.stderr[-300:]
    finally:
        sh(["git", "-C", "/repo", "worktree", "remove", "--force", wt])
    out["false_alarms"] = sorted(p for p, v in out["checks"].items() if v["exit"] != 0)
    if save:
        d = os.path.join(VERIF, "benign", save)
        os.makedirs(d, exist_ok=True)
        if os.path.abspath(patch) != os.path.join(d, "patch.diff"):
            shutil.copy(patch, os.path.join(d, "patch.diff"))
        note = os.path.join(os.path.dirname(patch), os.path.basename(patch).replace("change", "note").replace(".diff", ".md"))
        if os.path.exists(note) and os.path.abspath(note) != os.path.join(d, "note.md"):
            shutil.copy(note, os.path.join(d, "note.md"))
        json.dump({"id": save, "kind": "behaviour-preserving change (no property is broken)", "applies_to_HEAD": out.get("applies"), "test_suite": out.get("tests"),
                   "repo_head": sh(["git", "-C", "/repo", "rev-parse", "--short", "HEAD"]).stdout.strip(),
                   "checks": {k: {"exit": v["exit"], "wall_s": v["wall_s"], "lines": v["lines"]} for k, v in out["checks"].items()},
                   "false_alarms": out["false_alarms"]}, open(os.path.join(d, "meta.json"), "w"), indent=1)
    print(json.dumps(out, indent=1))


if __name__ == "__main__":
    main()
