#!/venv/bin/python
"""Confirm a seeded change and run checks against it in a scratch worktree (never in /repo).

    try_seeded.py <name> <patch.diff> <demo.py> <PROP>[,<PROP>...] [--tier quick]
Steps: worktree of /repo HEAD under /tmp, git apply, test suite (must pass), demo (must exit 1), demo on the
clean tree (must exit 0), then each check with VERIF_REPO pointing at the worktree. Prints a JSON summary.
"""
import json
import os
import subprocess
import sys
import time

VERIF = os.path.dirname(os.path.dirname(os.path.abspath(__file__)))
PY = "/venv/bin/python"


def sh(cmd, **kw):
    return subprocess.run(cmd, capture_output=True, text=True, **kw)


def main():
    name, patch, demo, props = sys.argv[1:5]
    rest = sys.argv[5:]
    tier = rest[rest.index("--tier") + 1] if "--tier" in rest else "quick"
    save = rest[rest.index("--save") + 1] if "--save" in rest else None
    breaks = rest[rest.index("--breaks") + 1] if "--breaks" in rest else props.split(",")[0]
    needs = rest[rest.index("--needs") + 1] if "--needs" in rest else ""
    wt = f"/tmp/seedtest_{name}"
    sh(["git", "-C", "/repo", "worktree", "remove", "--force", wt])
    import shutil as _sh

    _sh.rmtree(wt, ignore_errors=True)
    sh(["git", "-C", "/repo", "worktree", "prune"])
    r = sh(["git", "-C", "/repo", "worktree", "add", "-q", wt, "HEAD"])
    out = {"name": name, "patch": patch, "checks": {}}
    try:
        a = sh(["git", "-C", wt, "apply", os.path.abspath(patch)])
        if a.returncode != 0:
            # /repo HEAD has moved since the patch was written (fix commits): merge it
            a = sh(["git", "-C", wt, "apply", "--3way", os.path.abspath(patch)])
            if a.returncode == 0:
                sh(["git", "-C", wt, "reset", "-q"])
                out["applied_with_3way"] = True
        out["applies"] = a.returncode == 0
        if a.returncode != 0:
            out["apply_error"] = a.stderr[-300:]
            print(json.dumps(out, indent=1))
            return
        env = dict(os.environ, PYTHONPATH=wt, PYTHONDONTWRITEBYTECODE="1")
        t = sh([PY, "-m", "pytest", "-q", "-p", "no:cacheprovider", "-x"], cwd=wt, env=env)
        out["tests"] = t.stdout.strip().splitlines()[-1] if t.stdout.strip() else t.stderr[-200:]
        d = sh([PY, os.path.abspath(demo)], cwd="/tmp", env=env, timeout=600)
        out["demo_with_change_exit"] = d.returncode
        out["demo_output"] = (d.stdout + d.stderr)[-400:]
        envc = dict(os.environ, PYTHONPATH="/repo", PYTHONDONTWRITEBYTECODE="1")
        dc = sh([PY, os.path.abspath(demo)], cwd="/tmp", env=envc, timeout=600)
        out["demo_clean_exit"] = dc.returncode
        for prop in props.split(","):
            t0 = time.time()
            env2 = dict(os.environ, VERIF_REPO=wt)
            env2.pop("SIMKIT_BOOTED", None)
            c = sh([PY, os.path.join(VERIF, "run_check.py"), prop, "--tier", tier, "--no-evidence"], env=env2, timeout=7200)
            lines = [ln for ln in c.stdout.splitlines() if ln.startswith("VIOLATION") or ln.strip().startswith("what:") or ln.startswith("HARNESS")]
            out["checks"][prop] = {"exit": c.returncode, "wall_s": round(time.time() - t0, 1), "lines": lines[:6]}
    finally:
        sh(["git", "-C", "/repo", "worktree", "remove", "--force", wt])
    if save:
        import shutil

        d = os.path.join(VERIF, "seeded", save)
        os.makedirs(d, exist_ok=True)
        if os.path.abspath(patch) != os.path.join(d, "patch.diff"):
            shutil.copy(patch, os.path.join(d, "patch.diff"))
        if os.path.abspath(demo) != os.path.join(d, "demo.py"):
            shutil.copy(demo, os.path.join(d, "demo.py"))
        notes = os.path.join(os.path.dirname(patch), os.path.basename(patch).replace("change", "notes").replace(".diff", ".md"))
        if os.path.exists(notes) and os.path.abspath(notes) != os.path.join(d, "notes.md"):
            shutil.copy(notes, os.path.join(d, "notes.md"))
        meta = {"id": save, "breaks_property": breaks, "needs_to_manifest": needs,
                "confirmed": {"applies_to_HEAD": out.get("applies"), "test_suite": out.get("tests"),
                              "demo_exit_with_change": out.get("demo_with_change_exit"), "demo_exit_clean_tree": out.get("demo_clean_exit")},
                "ran": f"selftest/try_seeded.py (scratch worktree of /repo HEAD under /tmp, git apply, pytest, demo with and without the change, "
                       f"then run_check.py <prop> --tier {tier} with VERIF_REPO=<worktree>)",
                "repo_head": sh(["git", "-C", "/repo", "rev-parse", "--short", "HEAD"]).stdout.strip(),
                "checks": {k: {"detected": v["exit"] == 1, "exit": v["exit"], "wall_s": v["wall_s"], "first_lines": v["lines"][:4]} for k, v in out["checks"].items()}}
        old_meta = os.path.join(d, "meta.json")
        if os.path.exists(old_meta):
            try:
                prev = json.load(open(old_meta))
                for keep in ("neutralised", "history", "out_of_domain"):
                    if keep in prev:
                        meta[keep] = prev[keep]
            except ValueError:
                pass
        with open(os.path.join(d, "meta.json"), "w") as f:
            json.dump(meta, f, indent=1)
    print(json.dumps(out, indent=1))


if __name__ == "__main__":
    main()
