#!/venv/bin/python
"""Sensitivity: every `fix:` commit of /repo reverted in a scratch worktree must make the check that found the
defect fail again (a `fixed` entry of known_findings.json suppresses nothing)."""
import json
import os
import subprocess
import sys
import time

VERIF = os.path.dirname(os.path.dirname(os.path.abspath(__file__)))


def sh(cmd, **kw):
    return subprocess.run(cmd, capture_output=True, text=True, **kw)


def main():
    kf = json.load(open(os.path.join(VERIF, "known_findings.json")))
    out = {"at": time.strftime("%Y-%m-%d %H:%M:%S"), "rows": []}
    only = sys.argv[1:]  # commits to re-run; the rows of all others are kept from the last run
    last = os.path.join(VERIF, "selftest", "revert_fixes_last.json")
    if only and os.path.exists(last):
        out["rows"] = [r for r in json.load(open(last))["rows"] if r["commit"] not in only]
    for e in kf["entries"]:
        if e.get("status") != "fixed" or (only and e["commit"] not in only):
            continue
        wt = "/tmp/revert_" + e["commit"]
        sh(["git", "-C", "/repo", "worktree", "remove", "--force", wt])
        sh(["git", "-C", "/repo", "worktree", "add", "-q", wt, "HEAD"])
        try:
            r = sh(["git", "-C", wt, "-c", "user.name=x", "-c", "user.email=x@x", "revert", "--no-commit", e["commit"]])
            manual = os.path.join(VERIF, "selftest", "reverts", e["commit"] + ".diff")
            if r.returncode != 0 and os.path.exists(manual):
                # later fixes touched the same lines: a hand-written patch re-creates the defect on the current HEAD
                sh(["git", "-C", wt, "revert", "--abort"])
                sh(["git", "-C", wt, "checkout", "--", "."])
                r = sh(["git", "-C", wt, "apply", manual])
            row = {"id": e["id"], "property": e["property"], "commit": e["commit"], "revert_applies": r.returncode == 0}
            if r.returncode == 0:
                env = dict(os.environ, VERIF_REPO=wt)
                env.pop("SIMKIT_BOOTED", None)
                c = sh([sys.executable, os.path.join(VERIF, "run_check.py"), e["property"], "--tier", "quick", "--no-evidence"], env=env, timeout=3600)
                row["check_exit"] = c.returncode
                row["detected_again"] = c.returncode == 1
                row["first"] = [ln for ln in c.stdout.splitlines() if ln.strip().startswith("what:")][:2]
            else:
                row["revert_error"] = r.stderr[-200:]
            out["rows"].append(row)
            print(row, flush=True)
        finally:
            sh(["git", "-C", "/repo", "worktree", "remove", "--force", wt])
    json.dump(out, open(os.path.join(VERIF, "selftest", "revert_fixes_last.json"), "w"), indent=1)


if __name__ == "__main__":
    main()
